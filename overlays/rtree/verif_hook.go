//go:build verif

package rtree

import "github.com/ctessum/geom"

// This file is injected into package rtree at build time (go build -overlay)
// by the verification harness in /verif. It only reads the tree or builds
// copies of it; it is never part of a normal build.

// VNode is a read-only copy of one node of the tree.
type VNode struct {
	Level    int
	Leaf     bool
	ParentOK bool // parent pointer equals the node that holds the entry (true for the root)
	Entries  []VEntry
}

// VEntry is a read-only copy of one entry.
type VEntry struct {
	BB    geom.Bounds
	HasBB bool
	Child *VNode
	Obj   geom.Geom
}

// VerifSnapshot returns a deep read-only copy of the node structure together
// with the height and size counters.
func (tree *Rtree) VerifSnapshot() (root *VNode, height, size int) {
	var walk func(n, parent *node, isRoot bool) *VNode
	walk = func(n, parent *node, isRoot bool) *VNode {
		v := &VNode{Level: n.level, Leaf: n.leaf, ParentOK: isRoot || n.parent == parent}
		for _, e := range n.entries {
			ve := VEntry{Obj: e.obj}
			if e.bb != nil {
				ve.BB = *e.bb
				ve.HasBB = true
			}
			if e.child != nil {
				ve.Child = walk(e.child, n, false)
			}
			v.Entries = append(v.Entries, ve)
		}
		return v
	}
	return walk(tree.root, nil, true), tree.height, tree.size
}

// VerifClone returns a deep copy of the tree that shares only the stored
// objects with the receiver. Parent pointers are reproduced as they are when
// they point into the tree; a root parent pointer (which no code path follows)
// is reproduced as nil / non-nil detached node.
func (tree *Rtree) VerifClone() *Rtree {
	m := map[*node]*node{}
	var cp func(n *node) *node
	cp = func(n *node) *node {
		c := &node{leaf: n.leaf, level: n.level}
		m[n] = c
		c.entries = make([]entry, len(n.entries), cap(n.entries))
		for i, e := range n.entries {
			ce := entry{obj: e.obj}
			if e.bb != nil {
				b := *e.bb
				ce.bb = &b
			}
			if e.child != nil {
				ce.child = cp(e.child)
			}
			c.entries[i] = ce
		}
		return c
	}
	t := &Rtree{MinChildren: tree.MinChildren, MaxChildren: tree.MaxChildren, size: tree.size, height: tree.height}
	t.root = cp(tree.root)
	var fix func(n *node)
	fix = func(n *node) {
		if n.parent != nil {
			if p, ok := m[n.parent]; ok {
				m[n].parent = p
			} else {
				m[n].parent = &node{level: n.parent.level} // detached stale parent
			}
		}
		for _, e := range n.entries {
			if e.child != nil {
				fix(e.child)
			}
		}
	}
	fix(tree.root)
	return t
}
