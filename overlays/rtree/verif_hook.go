//go:build verif

package rtree

import "github.com/ctessum/geom"

// This file is injected into package rtree at build time (go build -overlay)
// by the verification harness in /verif. It only reads the tree or builds
// copies of it; it is never part of a normal build.

// VNode is a read-only copy of one node of the tree.
type VNode struct {
	Level    int
	Leaf     bool
	ParentOK bool // parent pointer equals the node that holds the entry (true for the root)
	Entries  []VEntry
}

// VEntry is a read-only copy of one entry.
type VEntry struct {
	BB    geom.Bounds
	HasBB bool
	Child *VNode
	Obj   geom.Geom
	// Alias is the ordinal (depth-first entry order) of the first entry that
	// holds the same *Bounds pointer, or -1 when this entry is the first holder.
	Alias int
	// BBIsObj: the box pointer is the stored object itself.
	BBIsObj bool
}

// VerifSnapshot returns a deep read-only copy of the node structure together
// with the height and size counters.
func (tree *Rtree) VerifSnapshot() (root *VNode, height, size int) {
	first := map[*geom.Bounds]int{}
	ord := 0
	var walk func(n, parent *node, isRoot bool) *VNode
	walk = func(n, parent *node, isRoot bool) *VNode {
		v := &VNode{Level: n.level, Leaf: n.leaf, ParentOK: isRoot || n.parent == parent}
		for _, e := range n.entries {
			ve := VEntry{Obj: e.obj, Alias: -1}
			if e.bb != nil {
				ve.BB = *e.bb
				ve.HasBB = true
				if f, ok := first[e.bb]; ok {
					ve.Alias = f
				} else {
					first[e.bb] = ord
				}
				if ob, ok := e.obj.(*geom.Bounds); ok && ob == e.bb {
					ve.BBIsObj = true
				}
			}
			ord++
			if e.child != nil {
				ve.Child = walk(e.child, n, false)
			}
			v.Entries = append(v.Entries, ve)
		}
		return v
	}
	return walk(tree.root, nil, true), tree.height, tree.size
}

// VerifClone returns a copy of the tree that shares only the stored objects
// with the receiver. Every struct is first copied as a whole (so that fields
// this file does not know about are carried along) and the node / box pointers
// are then redirected to the copies; two entries that hold the same *Bounds
// pointer hold one common copy afterwards, and a box pointer that is the
// stored object itself stays that object. Parent pointers are reproduced as
// they are when they point into the tree; a parent pointer leading out of the
// tree (which no code path follows) becomes a detached node.
func (tree *Rtree) VerifClone() *Rtree {
	m := map[*node]*node{}
	bm := map[*geom.Bounds]*geom.Bounds{}
	objs := map[*geom.Bounds]bool{} // stored objects that are boxes themselves
	var collect func(n *node)
	collect = func(n *node) {
		for _, e := range n.entries {
			if ob, ok := e.obj.(*geom.Bounds); ok {
				objs[ob] = true
			}
			if e.child != nil {
				collect(e.child)
			}
		}
	}
	collect(tree.root)
	var cp func(n *node) *node
	cp = func(n *node) *node {
		c := new(node)
		*c = *n
		m[n] = c
		c.entries = make([]entry, len(n.entries), cap(n.entries))
		for i, e := range n.entries {
			ce := e
			if e.bb != nil {
				if objs[e.bb] {
					// the box is a stored object (this entry's or, through
					// aliasing, another one's)
				} else if b, ok := bm[e.bb]; ok {
					ce.bb = b
				} else {
					b := new(geom.Bounds)
					*b = *e.bb
					bm[e.bb] = b
					ce.bb = b
				}
			}
			if e.child != nil {
				ce.child = cp(e.child)
			}
			c.entries[i] = ce
		}
		return c
	}
	t := new(Rtree)
	*t = *tree
	t.root = cp(tree.root)
	var fix func(n *node)
	fix = func(n *node) {
		if n.parent != nil {
			if p, ok := m[n.parent]; ok {
				m[n].parent = p
			} else {
				m[n].parent = &node{level: n.parent.level} // detached stale parent
			}
		}
		for _, e := range n.entries {
			if e.child != nil {
				fix(e.child)
			}
		}
	}
	fix(tree.root)
	return t
}
