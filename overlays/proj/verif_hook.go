//go:build verif

package proj

// This file is injected into package proj at build time (go build -overlay)
// by the verification harness in /verif. It only reads package state.

// VerifEllipsoids returns name -> (a, b, rf, ellipseName).
func VerifEllipsoids() map[string][3]float64 {
	o := map[string][3]float64{}
	for k, v := range ellipsoidDefs {
		o[k] = [3]float64{v.a, v.b, v.rf}
	}
	return o
}

// VerifEllipsoidNames returns name -> ellipseName.
func VerifEllipsoidNames() map[string]string {
	o := map[string]string{}
	for k, v := range ellipsoidDefs {
		o[k] = v.ellipseName
	}
	return o
}

// VerifDatums returns name -> towgs84 and name -> (ellipse, datumName).
func VerifDatums() (map[string][]float64, map[string][2]string) {
	p := map[string][]float64{}
	n := map[string][2]string{}
	for k, v := range datumDefs {
		p[k] = append([]float64{}, v.towgs84...)
		n[k] = [2]string{v.ellipse, v.datumName}
	}
	return p, n
}

// VerifPrimeMeridians returns the prime meridian table (degrees).
func VerifPrimeMeridians() map[string]float64 {
	o := map[string]float64{}
	for k, v := range primeMeridian {
		o[k] = v
	}
	return o
}

// VerifUnits returns the unit table (to_meter).
func VerifUnits() map[string]float64 {
	o := map[string]float64{}
	for k, v := range units {
		o[k] = v.to_meter
	}
	return o
}

// VerifDefsDump renders the registered definitions (shared globals) so that
// the harness can notice when a history of calls has changed them.
func VerifDefNames() []string {
	var o []string
	for k := range defs {
		o = append(o, k)
	}
	return o
}
