// Package wkbref is an independent serializer of the OGC simple-features WKB
// layout, written from the specification (not from the geom code). Besides the
// bytes it returns a layout map that the fault enumerator of C07 uses.
package wkbref

import (
	"encoding/binary"
	"fmt"
	"math"

	"github.com/ctessum/geom"
)

// Field describes one field of the produced encoding.
type Field struct {
	Off  int
	Len  int
	Kind string // "order", "type", "count", "coord"
	Elem int    // pre-order index of the element the field belongs to
}

type enc struct {
	buf    []byte
	fields []Field
	elem   int
	little func(elem int) bool
}

func (e *enc) u32(v uint32, little bool, kind string, el int) {
	var b [4]byte
	if little {
		binary.LittleEndian.PutUint32(b[:], v)
	} else {
		binary.BigEndian.PutUint32(b[:], v)
	}
	e.fields = append(e.fields, Field{len(e.buf), 4, kind, el})
	e.buf = append(e.buf, b[:]...)
}

func (e *enc) f64(v float64, little bool, el int) {
	var b [8]byte
	if little {
		binary.LittleEndian.PutUint64(b[:], math.Float64bits(v))
	} else {
		binary.BigEndian.PutUint64(b[:], math.Float64bits(v))
	}
	e.fields = append(e.fields, Field{len(e.buf), 8, "coord", el})
	e.buf = append(e.buf, b[:]...)
}

func (e *enc) pts(p []geom.Point, little bool, el int) {
	e.u32(uint32(len(p)), little, "count", el)
	for _, q := range p {
		e.f64(q.X, little, el)
		e.f64(q.Y, little, el)
	}
}

func (e *enc) geom(g geom.Geom) error {
	el := e.elem
	e.elem++
	little := e.little(el)
	e.fields = append(e.fields, Field{len(e.buf), 1, "order", el})
	if little {
		e.buf = append(e.buf, 1)
	} else {
		e.buf = append(e.buf, 0)
	}
	switch t := g.(type) {
	case geom.Point:
		e.u32(1, little, "type", el)
		e.f64(t.X, little, el)
		e.f64(t.Y, little, el)
	case geom.LineString:
		e.u32(2, little, "type", el)
		e.pts(t, little, el)
	case geom.Polygon:
		e.u32(3, little, "type", el)
		e.u32(uint32(len(t)), little, "count", el)
		for _, r := range t {
			e.pts(r, little, el)
		}
	case geom.MultiPoint:
		e.u32(4, little, "type", el)
		e.u32(uint32(len(t)), little, "count", el)
		for _, p := range t {
			if err := e.geom(p); err != nil {
				return err
			}
		}
	case geom.MultiLineString:
		e.u32(5, little, "type", el)
		e.u32(uint32(len(t)), little, "count", el)
		for _, l := range t {
			if err := e.geom(l); err != nil {
				return err
			}
		}
	case geom.MultiPolygon:
		e.u32(6, little, "type", el)
		e.u32(uint32(len(t)), little, "count", el)
		for _, p := range t {
			if err := e.geom(p); err != nil {
				return err
			}
		}
	case geom.GeometryCollection:
		e.u32(7, little, "type", el)
		e.u32(uint32(len(t)), little, "count", el)
		for _, m := range t {
			if err := e.geom(m); err != nil {
				return err
			}
		}
	default:
		return fmt.Errorf("wkbref: type %T has no WKB encoding", g)
	}
	return nil
}

// Encode serializes g; little(elem) selects the byte order of the elem-th
// element in pre-order.
func Encode(g geom.Geom, little func(elem int) bool) ([]byte, []Field, error) {
	e := &enc{little: little}
	if err := e.geom(g); err != nil {
		return nil, nil, err
	}
	return e.buf, e.fields, nil
}
