// Package vrt is the shim runtime that instrumented packages link against
// instead of sync / errgroup / channels / go statements / map iteration, plus
// the controlled cooperative scheduler (engine E3). Outside a controlled run
// (X == nil) every shim degrades to the real primitive.
package vrt

import (
	"cmp"
	"fmt"
	"sort"
	"sync"
)

// Point is one recorded choice point of an execution.
type Point struct {
	N          int    // number of alternatives
	CurEnabled bool   // thread points: the running thread was among them (index 0)
	Chosen     int    // alternative taken
	Env        bool   // environment choice (map order), not a thread switch
	Tid        int    // thread that was running when the point was reached
	Label      string // operation about to be performed
}

type thread struct {
	id      int
	resume  chan struct{}
	enabled func() bool
	label   string
	done    bool
}

// Exec is one controlled execution.
type Exec struct {
	prefix     []int
	Points     []Point
	threads    []*thread
	cur        *thread
	Err        string // "", "deadlock", "step horizon", "panic in T..: ..", "replay divergence .."
	aborting   bool
	steps      int
	horizon    int
	EnvChoices bool
	live       sync.WaitGroup
	Trace      []string // op labels in execution order (kept only when KeepTrace)
	KeepTrace  bool
}

// X is the current controlled execution (one at a time per process).
var X *Exec

type abortSig struct{}

// Options of a controlled run.
type Options struct {
	Horizon    int
	EnvChoices bool
	KeepTrace  bool
}

// Run executes body as thread 0 under the scheduler, replaying prefix and then
// taking alternative 0 at every later choice point.
func Run(prefix []int, opt Options, body func()) *Exec {
	if opt.Horizon == 0 {
		opt.Horizon = 100000
	}
	x := &Exec{prefix: prefix, horizon: opt.Horizon, EnvChoices: opt.EnvChoices, KeepTrace: opt.KeepTrace}
	X = x
	t := &thread{id: 0, resume: make(chan struct{}, 1)}
	x.threads = append(x.threads, t)
	x.cur = t
	x.live.Add(1)
	go func() {
		<-t.resume
		defer x.exit(t)
		body()
	}()
	t.resume <- struct{}{}
	x.live.Wait()
	X = nil
	return x
}

func (x *Exec) exit(t *thread) {
	defer x.live.Done()
	if r := recover(); r != nil {
		if _, ok := r.(abortSig); !ok {
			if !x.aborting {
				x.Err = fmt.Sprintf("panic in T%d: %v", t.id, r)
				x.wakeAll(t)
			}
		}
		t.done = true
		return
	}
	t.done = true
	if x.aborting {
		return
	}
	x.schedule(t, true)
}

// wakeAll starts the abort: every parked thread is released and unwinds.
func (x *Exec) wakeAll(self *thread) {
	x.aborting = true
	for _, o := range x.threads {
		if o != self && !o.done {
			select {
			case o.resume <- struct{}{}:
			default:
			}
		}
	}
}

func (x *Exec) fail(t *thread, msg string, exiting bool) {
	x.Err = msg
	x.wakeAll(t)
	if !exiting {
		panic(abortSig{})
	}
}

// schedule is called by the running thread t before its next operation (or on
// exit) and hands the token to the chosen enabled thread.
func (x *Exec) schedule(t *thread, exiting bool) {
	x.steps++
	if x.steps > x.horizon {
		x.fail(t, "step horizon", exiting)
		return
	}
	var en []*thread
	curEn := false
	if !t.done && t.enabled() {
		en = append(en, t)
		curEn = true
	}
	for _, o := range x.threads {
		if o != t && !o.done && o.enabled != nil && o.enabled() {
			en = append(en, o)
		}
	}
	if len(en) == 0 {
		for _, o := range x.threads {
			if !o.done {
				x.fail(t, "deadlock", exiting)
				return
			}
		}
		return // all threads finished
	}
	c := 0
	i := len(x.Points)
	if i < len(x.prefix) {
		c = x.prefix[i]
		if c >= len(en) {
			x.fail(t, fmt.Sprintf("replay divergence at point %d: choice %d of %d", i, c, len(en)), exiting)
			return
		}
	}
	x.Points = append(x.Points, Point{N: len(en), CurEnabled: curEn, Chosen: c, Tid: t.id, Label: t.label})
	next := en[c]
	x.cur = next
	if next == t {
		return
	}
	next.resume <- struct{}{}
	if !exiting {
		<-t.resume
		if x.aborting {
			panic(abortSig{})
		}
	}
}

// point: the current thread is about to perform an operation that is enabled
// when enabled() holds.
func point(label string, enabled func() bool) *Exec {
	x := X
	if x == nil {
		return nil
	}
	if x.aborting {
		return x
	}
	t := x.cur
	t.enabled = enabled
	t.label = label
	x.schedule(t, false)
	t.enabled = nil
	if x.KeepTrace {
		x.Trace = append(x.Trace, fmt.Sprintf("T%d:%s", t.id, label))
	}
	return x
}

func always() bool { return true }

// Choose is an environment choice among n alternatives (0 is canonical).
func Choose(n int, label string) int {
	x := X
	if x == nil || x.aborting || !x.EnvChoices || n <= 1 {
		return 0
	}
	c := 0
	i := len(x.Points)
	if i < len(x.prefix) {
		c = x.prefix[i]
		if c >= n {
			x.fail(x.cur, fmt.Sprintf("replay divergence at env point %d: choice %d of %d", i, c, n), false)
		}
	}
	x.Points = append(x.Points, Point{N: n, Chosen: c, Env: true, Tid: x.cur.id, Label: label})
	return c
}

// Go starts f as a new controlled thread (or a plain goroutine outside a run).
func Go(f func()) {
	x := X
	if x == nil {
		go f()
		return
	}
	if x.aborting {
		return
	}
	t := &thread{id: len(x.threads), resume: make(chan struct{}, 1)}
	t.enabled = always
	t.label = "start"
	x.threads = append(x.threads, t)
	x.live.Add(1)
	go func() {
		<-t.resume
		if x.aborting {
			t.done = true
			x.live.Done()
			return
		}
		t.enabled = nil
		defer x.exit(t)
		f()
	}()
	point("go", always)
}

// WaitCond parks the current thread until f holds (used by the errgroup shim).
func WaitCond(label string, f func() bool) { point(label, f) }

// Controlled reports whether a controlled run is in progress.
func Controlled() bool { return X != nil }

// ---- sync shims ------------------------------------------------------------------

// Mutex replaces sync.Mutex.
type Mutex struct {
	real sync.Mutex
	held bool
}

func (m *Mutex) Lock() {
	if X == nil {
		m.real.Lock()
		return
	}
	point("Mutex.Lock", func() bool { return !m.held })
	m.held = true
}

func (m *Mutex) Unlock() {
	if X == nil {
		m.real.Unlock()
		return
	}
	point("Mutex.Unlock", always)
	m.held = false
}

// RWMutex replaces sync.RWMutex (writer preference: a pending Lock blocks new
// RLocks, as in the Go runtime).
type RWMutex struct {
	real     sync.RWMutex
	w        bool
	r        int
	wwaiting int
}

func (m *RWMutex) Lock() {
	if X == nil {
		m.real.Lock()
		return
	}
	point("RWMutex.Lock/announce", always)
	m.wwaiting++
	point("RWMutex.Lock/acquire", func() bool { return !m.w && m.r == 0 })
	m.wwaiting--
	m.w = true
}

func (m *RWMutex) Unlock() {
	if X == nil {
		m.real.Unlock()
		return
	}
	point("RWMutex.Unlock", always)
	m.w = false
}

func (m *RWMutex) RLock() {
	if X == nil {
		m.real.RLock()
		return
	}
	point("RWMutex.RLock", func() bool { return !m.w && m.wwaiting == 0 })
	m.r++
}

func (m *RWMutex) RUnlock() {
	if X == nil {
		m.real.RUnlock()
		return
	}
	point("RWMutex.RUnlock", always)
	m.r--
}

// WaitGroup replaces sync.WaitGroup.
type WaitGroup struct {
	real sync.WaitGroup
	n    int
}

func (w *WaitGroup) Add(d int) {
	if X == nil {
		w.real.Add(d)
		return
	}
	point("WaitGroup.Add", always)
	w.n += d
}

func (w *WaitGroup) Done() {
	if X == nil {
		w.real.Done()
		return
	}
	point("WaitGroup.Done", always)
	w.n--
}

func (w *WaitGroup) Wait() {
	if X == nil {
		w.real.Wait()
		return
	}
	point("WaitGroup.Wait", func() bool { return w.n == 0 })
}

// Once replaces sync.Once.
type Once struct {
	real sync.Once
	done bool
	m    Mutex
}

func (o *Once) Do(f func()) {
	if X == nil {
		o.real.Do(f)
		return
	}
	o.m.Lock()
	defer o.m.Unlock()
	if !o.done {
		o.done = true
		f()
	}
}

// Pool and Map pass through.
type (
	Pool = sync.Pool
	Map  = sync.Map
)

// ---- channels --------------------------------------------------------------------

// Chan replaces a buffered channel of T.
type Chan[T any] struct {
	real   chan T
	buf    []T
	cap    int
	closed bool
}

// MakeChan replaces make(chan T, n).
func MakeChan[T any](n int) *Chan[T] {
	if X == nil {
		return &Chan[T]{real: make(chan T, n)}
	}
	if n == 0 {
		panic("vrt: unbuffered channels are not modelled")
	}
	return &Chan[T]{cap: n}
}

func (c *Chan[T]) Send(v T) {
	if c.real != nil {
		c.real <- v
		return
	}
	point("chan.send", func() bool { return len(c.buf) < c.cap || c.closed })
	if c.closed {
		panic("send on closed channel")
	}
	c.buf = append(c.buf, v)
}

// Recv replaces v, ok := <-c.
func (c *Chan[T]) Recv() (T, bool) {
	if c.real != nil {
		v, ok := <-c.real
		return v, ok
	}
	point("chan.recv", func() bool { return len(c.buf) > 0 || c.closed })
	var z T
	if len(c.buf) == 0 {
		return z, false
	}
	v := c.buf[0]
	c.buf = c.buf[1:]
	return v, true
}

// Recv1 replaces <-c.
func (c *Chan[T]) Recv1() T {
	v, _ := c.Recv()
	return v
}

func (c *Chan[T]) Close() {
	if c.real != nil {
		close(c.real)
		return
	}
	point("chan.close", always)
	if c.closed {
		panic("close of closed channel")
	}
	c.closed = true
}

func (c *Chan[T]) Len() int {
	if c.real != nil {
		return len(c.real)
	}
	return len(c.buf)
}

func (c *Chan[T]) Cap() int {
	if c.real != nil {
		return cap(c.real)
	}
	return c.cap
}

// ---- map iteration order as an environment choice -----------------------------------

// MapKeys returns the keys of m in an order decided by the explorer: canonical
// = ascending; alternatives = all other permutations for <= 4 keys, rotations
// and the reversal above.
func MapKeys[K cmp.Ordered, V any](m map[K]V) []K {
	keys := make([]K, 0, len(m))
	for k := range m {
		keys = append(keys, k)
	}
	sort.Slice(keys, func(i, j int) bool { return keys[i] < keys[j] })
	n := len(keys)
	if n <= 1 {
		return keys
	}
	if n <= 4 {
		nperm := 1
		for i := 2; i <= n; i++ {
			nperm *= i
		}
		c := Choose(nperm, "map-order")
		if c == 0 {
			return keys
		}
		// c-th permutation in lexicographic order (factorial number system)
		rest := append([]K{}, keys...)
		out := make([]K, 0, n)
		f := nperm
		for i := n; i >= 1; i-- {
			f /= i
			j := c / f
			c %= f
			out = append(out, rest[j])
			rest = append(rest[:j], rest[j+1:]...)
		}
		return out
	}
	c := Choose(n+1, "map-order")
	if c == 0 {
		return keys
	}
	if c == n {
		for i, j := 0, n-1; i < j; i, j = i+1, j-1 {
			keys[i], keys[j] = keys[j], keys[i]
		}
		return keys
	}
	return append(append([]K{}, keys[c:]...), keys[:c]...)
}
