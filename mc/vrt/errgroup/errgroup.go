// Package errgroup replaces golang.org/x/sync/errgroup in instrumented
// packages: Go spawns a controlled thread, Wait blocks on the group counter.
package errgroup

import (
	"context"
	"sync"

	"verif/mc/vrt"
)

// Group mirrors errgroup.Group.
type Group struct {
	cancel func()
	n      int
	err    error

	wg   sync.WaitGroup
	once sync.Once
}

// WithContext mirrors errgroup.WithContext.
func WithContext(ctx context.Context) (*Group, context.Context) {
	ctx, cancel := context.WithCancel(ctx)
	return &Group{cancel: cancel}, ctx
}

// Go mirrors (*errgroup.Group).Go.
func (g *Group) Go(f func() error) {
	if !vrt.Controlled() {
		g.wg.Add(1)
		go func() {
			defer g.wg.Done()
			if err := f(); err != nil {
				g.once.Do(func() {
					g.err = err
					if g.cancel != nil {
						g.cancel()
					}
				})
			}
		}()
		return
	}
	g.n++
	vrt.Go(func() {
		err := f()
		if err != nil && g.err == nil {
			g.err = err
			if g.cancel != nil {
				g.cancel()
			}
		}
		vrt.WaitCond("errgroup.done", func() bool { return true })
		g.n--
	})
}

// Wait mirrors (*errgroup.Group).Wait.
func (g *Group) Wait() error {
	if !vrt.Controlled() {
		g.wg.Wait()
		if g.cancel != nil {
			g.cancel()
		}
		return g.err
	}
	vrt.WaitCond("errgroup.Wait", func() bool { return g.n == 0 })
	if g.cancel != nil {
		g.cancel()
	}
	return g.err
}
