// Package report is the shared evidence / violation / known-finding machinery
// of all checks. A check creates one Run, feeds it counters and violations and
// calls Finish, which writes evidence/<id>.json, prints the VIOLATION /
// KNOWN-FINDING lines and exits with the contractual status.
package report

import (
	"crypto/sha1"
	"encoding/json"
	"fmt"
	"os"
	"path/filepath"
	"sort"
	"strconv"
	"strings"
	"sync"

	"sync/atomic"
	"time"
	"verif/mc/enum"
)

// Root is the /verif directory (VERIF_ROOT or cwd).
func Root() string {
	if r := os.Getenv("VERIF_ROOT"); r != "" {
		return r
	}
	wd, _ := os.Getwd()
	return wd
}

// Finding is one entry of known_findings.json.
type Finding struct {
	Property  string `json:"property"`
	Status    string `json:"status"` // "known" or "fixed"
	Signature string `json:"signature"`
	What      string `json:"what"`
	Commit    string `json:"commit,omitempty"`
}

type violation struct {
	Sig    string
	Detail interface{}
	Count  int64
	Replay string
}

// Run accumulates what one check execution covered.
type Run struct {
	ID    string
	Tier  string
	Level string
	Seed  int
	start time.Time

	States      int64
	Transitions int64
	Evals       int64
	Nontrivial  int64
	Skipped     int64
	Exhaustive  bool
	Rule        string
	Assumptions []string

	mu      sync.Mutex
	samples []interface{}
	extra   map[string]interface{}
	viol    map[string]*violation
	order   []string
	caps    []string
	known   []Finding
}

// New creates the Run for property id. tier is "quick" or "thorough".
func New(id, tier, level string) *Run {
	r := &Run{ID: id, Tier: tier, Level: level, start: time.Now(), Exhaustive: true,
		extra: map[string]interface{}{}, viol: map[string]*violation{}}
	if old, _ := filepath.Glob(filepath.Join(Root(), "replay", id+"-*.json")); len(old) > 0 {
		for _, f := range old {
			os.Remove(f)
		}
	}
	if s := os.Getenv("VERIF_SEED"); s != "" {
		r.Seed, _ = strconv.Atoi(s)
	}
	// safety net: a panic raised inside the library that escapes an item of
	// enum.Parallel (a call the check did not isolate) is a violation, not a
	// crash of the check; a panic raised by the check's own code continues.
	enum.OnPanic = func(i int, p interface{}, stack []byte) bool {
		st := string(stack)
		k := strings.Index(st, "panic(")
		if k < 0 {
			return false
		}
		rest := st[k:]
		// the frame that raised it is the first non-runtime frame after panic()
		for _, ln := range strings.Split(rest, "\n")[1:] {
			if !strings.HasPrefix(ln, "\t") {
				if strings.HasPrefix(ln, "runtime.") || strings.HasPrefix(ln, "panic(") {
					continue
				}
				if strings.HasPrefix(ln, "github.com/ctessum/geom") {
					r.Violation("library-panic-outside-isolated-call", map[string]interface{}{"item": i, "panic": fmt.Sprint(p), "stack": rest})
					return true
				}
				return false
			}
		}
		return false
	}
	if b, err := os.ReadFile(filepath.Join(Root(), "known_findings.json")); err == nil {
		var all struct {
			Findings []Finding `json:"findings"`
		}
		if err := json.Unmarshal(b, &all); err != nil {
			Harness("known_findings.json: %v", err)
		}
		for _, f := range all.Findings {
			if f.Property == id {
				r.known = append(r.known, f)
			}
		}
	}
	return r
}

// Harness reports a problem of the machinery itself (never a VIOLATION).
func Harness(format string, a ...interface{}) {
	fmt.Printf("HARNESS-ERROR "+format+"\n", a...)
	os.Exit(3)
}

func (r *Run) AddStates(n int64)      { atomic.AddInt64(&r.States, n) }
func (r *Run) AddTransitions(n int64) { atomic.AddInt64(&r.Transitions, n) }
func (r *Run) AddEvals(n int64)       { atomic.AddInt64(&r.Evals, n) }
func (r *Run) AddNontrivial(n int64)  { atomic.AddInt64(&r.Nontrivial, n) }
func (r *Run) AddSkipped(n int64)     { atomic.AddInt64(&r.Skipped, n) }

// Sample keeps up to max written-out cases for the evidence file.
func (r *Run) Sample(max int, s interface{}) {
	r.mu.Lock()
	if len(r.samples) < max {
		r.samples = append(r.samples, s)
	}
	r.mu.Unlock()
}

// Set records an extra coverage key.
func (r *Run) Set(k string, v interface{}) {
	r.mu.Lock()
	r.extra[k] = v
	r.mu.Unlock()
}

// Inc adds to an integer extra coverage key.
func (r *Run) Inc(k string, n int64) {
	r.mu.Lock()
	c, _ := r.extra[k].(int64)
	r.extra[k] = c + n
	r.mu.Unlock()
}

// Cap records that a bound was hit; the run is then not exhaustive.
func (r *Run) Cap(what string) {
	r.mu.Lock()
	r.caps = append(r.caps, what)
	r.Exhaustive = false
	r.mu.Unlock()
}

// Violation records a property violation. sig identifies the class of failure
// (operation, types, configuration class, symptom, minimal input); detail is the
// replayable case. Only the first case per signature is kept.
func (r *Run) Violation(sig string, detail interface{}) {
	r.mu.Lock()
	defer r.mu.Unlock()
	v := r.viol[sig]
	if v == nil {
		v = &violation{Sig: sig, Detail: detail}
		r.viol[sig] = v
		r.order = append(r.order, sig)
	}
	v.Count++
}

// jsonSafe returns v, or its %+v rendering when encoding/json cannot encode it
// (non-finite floats, for instance), so that a replay or evidence file is
// never left empty.
func jsonSafe(v interface{}) interface{} {
	if _, err := json.Marshal(v); err != nil {
		return fmt.Sprintf("%+v", v)
	}
	return v
}

// NViolationSigs is the number of distinct signatures so far.
func (r *Run) NViolationSigs() int {
	r.mu.Lock()
	defer r.mu.Unlock()
	return len(r.viol)
}

// Elapsed since the run started.
func (r *Run) Elapsed() time.Duration { return time.Since(r.start) }

// Budget returns the global wall budget for this tier (overridable by
// VERIF_BUDGET_S); checks stop at a shard boundary when it expires.
func (r *Run) Budget() time.Duration {
	if s := os.Getenv("VERIF_BUDGET_S"); s != "" {
		if n, err := strconv.Atoi(s); err == nil {
			return time.Duration(n) * time.Second
		}
	}
	if r.Tier == "thorough" {
		return 40 * time.Minute
	}
	return 4 * time.Minute
}

// Expired reports whether the wall budget is used up.
func (r *Run) Expired() bool { return r.Elapsed() > r.Budget() }

func (r *Run) matchKnown(sig string) *Finding {
	for i := range r.known {
		f := &r.known[i]
		if f.Status == "known" && f.Signature == sig {
			return f
		}
	}
	return nil
}

// Finish writes the evidence file, prints result lines and exits.
func (r *Run) Finish() {
	root := Root()
	os.MkdirAll(filepath.Join(root, "evidence"), 0o755)
	os.MkdirAll(filepath.Join(root, "replay"), 0o755)
	sort.Strings(r.order)
	nviol := 0
	var lines []string
	seenKnown := map[string]bool{}
	for _, sig := range r.order {
		v := r.viol[sig]
		if f := r.matchKnown(sig); f != nil {
			if !seenKnown[sig] {
				lines = append(lines, fmt.Sprintf("KNOWN-FINDING: property=%s %s [%s] (%d cases)", r.ID, f.What, sig, v.Count))
				seenKnown[sig] = true
			}
			continue
		}
		nviol++
		h := sha1.Sum([]byte(sig))
		name := fmt.Sprintf("%s-%x.json", r.ID, h[:5])
		path := filepath.Join(root, "replay", name)
		b, _ := json.MarshalIndent(map[string]interface{}{"property": r.ID, "signature": sig, "count": v.Count, "case": jsonSafe(v.Detail)}, "", " ")
		os.WriteFile(path, b, 0o644)
		v.Replay = path
		if nviol <= 25 {
			lines = append(lines, fmt.Sprintf("VIOLATION property=%s replay=%s sig=%q cases=%d", r.ID, path, sig, v.Count))
		}
	}
	cov := map[string]interface{}{}
	for k, v := range r.extra {
		cov[k] = v
	}
	if r.States == 0 {
		r.States = r.Evals
	}
	if r.Transitions == 0 {
		r.Transitions = r.Evals
	}
	if r.Evals == 0 {
		r.Evals = r.Transitions
	}
	cov["states"] = r.States
	cov["transitions"] = r.Transitions
	cov["traces_validated_against_impl"] = r.Transitions
	cov["evaluations"] = r.Evals
	cov["distinct_nontrivial"] = r.Nontrivial
	cov["skipped_outside_quantifier"] = r.Skipped
	cov["rule"] = r.Rule
	if len(r.samples) == 0 {
		r.samples = []interface{}{"(no case executed)"}
	}
	for i := range r.samples {
		r.samples[i] = jsonSafe(r.samples[i])
	}
	cov["samples"] = r.samples
	cov["exhaustive"] = r.Exhaustive && nviol == 0
	if len(r.caps) > 0 {
		cov["caps_hit"] = r.caps
	}
	cov["known_findings_matched"] = len(seenKnown)
	ev := map[string]interface{}{
		"property_id": r.ID, "tier": r.Tier, "seed": r.Seed, "level": r.Level,
		"coverage": cov, "assumptions": r.Assumptions,
		"wall_s":     float64(int(time.Since(r.start).Seconds()*100)) / 100,
		"violations": nviol,
	}
	if r.Assumptions == nil {
		ev["assumptions"] = []string{}
	}
	b, _ := json.MarshalIndent(ev, "", " ")
	if err := os.WriteFile(filepath.Join(root, "evidence", r.ID+".json"), b, 0o644); err != nil {
		Harness("cannot write evidence: %v", err)
	}
	fmt.Printf("%s %s: states=%d transitions=%d evaluations=%d nontrivial=%d skipped=%d exhaustive=%v wall=%.1fs %s\n",
		r.ID, r.Tier, r.States, r.Transitions, r.Evals, r.Nontrivial, r.Skipped, cov["exhaustive"], time.Since(r.start).Seconds(), strings.Join(r.caps, "; "))
	for _, l := range lines {
		fmt.Println(l)
	}
	if nviol > 0 {
		os.Exit(1)
	}
	os.Exit(0)
}
