// Package sched is the stateless deviation-bounded depth-first explorer of
// engine E3. It enumerates every execution of a body whose number of
// deviations — preemptions (switching away from a still-enabled thread) plus
// non-canonical environment choices — does not exceed the bound; executions
// always run to completion.
package sched

import (
	"fmt"
	"strings"

	"verif/mc/vrt"
)

// Result of one execution as judged by the caller.
type Result struct {
	Outcome   string // canonical observation of this execution
	Violation string // "" or the symptom
}

// Stats of an exploration.
type Stats struct {
	Execs      int64
	Points     int64
	MaxPoints  int
	Preempting int64 // executions with at least one deviation
	Outcomes   map[string]int64
	Violations []Violation
	Harness    string // non-empty: the machinery itself failed (nondeterminism)
	Capped     bool
}

// Violation is a failing execution with its replayable schedule.
type Violation struct {
	Symptom  string
	Outcome  string
	Schedule []int
	Trace    string
}

// Config of an exploration.
type Config struct {
	Bound int
	// Delay selects deviation (delay) bounding: every non-canonical choice costs
	// one deviation, also at points where the running thread is blocked or has
	// exited. With Delay false only preemptions (switching away from a still
	// enabled thread) and environment choices are charged, and switches at
	// blocking points are explored exhaustively for free (CHESS-style
	// preemption bounding).
	Delay      bool
	EnvChoices bool
	Horizon    int
	// Run executes the body under vrt.Run with the given prefix and returns the
	// execution and the caller's judgement.
	Body func() Result
	// Setup, when set, runs before every execution outside the controlled
	// region (no scheduling or environment points): it rebuilds the state the
	// body works on, so that every execution starts from a fresh instance.
	Setup func()
	// Shard/NShards split the first-level subtrees between processes.
	Shard, NShards int
	// MaxExecs caps the exploration (0 = none); Stop is polled between executions.
	MaxExecs int64
	Stop     func() bool
	// MaxViolations stops the search early once reached.
	MaxViolations int
}

// Explore runs the bounded DFS.
func Explore(cfg Config) *Stats {
	st := &Stats{Outcomes: map[string]int64{}}
	if cfg.NShards == 0 {
		cfg.NShards = 1
	}
	if cfg.MaxViolations == 0 {
		cfg.MaxViolations = 5
	}
	run := func(prefix []int, trace bool) (*vrt.Exec, Result) {
		var res Result
		if cfg.Setup != nil {
			cfg.Setup()
		}
		x := vrt.Run(prefix, vrt.Options{Horizon: cfg.Horizon, EnvChoices: cfg.EnvChoices, KeepTrace: trace}, func() { res = cfg.Body() })
		switch {
		case strings.HasPrefix(x.Err, "replay divergence"):
			st.Harness = x.Err
		case x.Err != "":
			res.Violation = x.Err
			if i := strings.Index(res.Violation, ":"); i > 0 && strings.HasPrefix(res.Violation, "panic") {
				res.Outcome = res.Violation
				res.Violation = "panic"
			} else {
				res.Outcome = x.Err
			}
		}
		return x, res
	}
	var topChild int
	var explore func(prefix []int, depth int)
	explore = func(prefix []int, depth int) {
		if st.Harness != "" || len(st.Violations) >= cfg.MaxViolations {
			return
		}
		if (cfg.MaxExecs > 0 && st.Execs >= cfg.MaxExecs) || (cfg.Stop != nil && cfg.Stop()) {
			st.Capped = true
			return
		}
		x, res := run(prefix, false)
		if st.Harness != "" {
			return
		}
		// the prefix must have been replayed exactly
		for i := range prefix {
			if i >= len(x.Points) || x.Points[i].Chosen != prefix[i] {
				st.Harness = fmt.Sprintf("replay of prefix %v ended after %d points", prefix, len(x.Points))
				return
			}
		}
		count := depth > 0 || cfg.Shard == 0
		if count {
			st.Execs++
			st.Points += int64(len(x.Points))
			if len(x.Points) > st.MaxPoints {
				st.MaxPoints = len(x.Points)
			}
			st.Outcomes[res.Outcome]++
			if len(prefix) > 0 {
				st.Preempting++
			}
			if res.Violation != "" {
				// replay twice with tracing: identical observations required
				x2, r2 := run(choices(x), true)
				x3, r3 := run(choices(x), true)
				if r2.Outcome != res.Outcome || r3.Outcome != res.Outcome || len(x2.Points) != len(x.Points) || len(x3.Points) != len(x.Points) {
					st.Harness = fmt.Sprintf("violating schedule does not replay deterministically: %q / %q / %q", res.Outcome, r2.Outcome, r3.Outcome)
					return
				}
				st.Violations = append(st.Violations, Violation{Symptom: res.Violation, Outcome: res.Outcome, Schedule: choices(x), Trace: strings.Join(x2.Trace, " ")})
			}
		}
		dev := 0
		for i := 0; i < len(x.Points); i++ {
			p := x.Points[i]
			if i >= len(prefix) {
				for alt := 1; alt < p.N; alt++ {
					cost := dev
					if cfg.Delay || p.Env || p.CurEnabled {
						cost++
					}
					if cost > cfg.Bound {
						continue
					}
					if depth == 0 {
						k := topChild
						topChild++
						if k%cfg.NShards != cfg.Shard {
							continue
						}
					}
					np := make([]int, i+1)
					for j := 0; j < i; j++ {
						np[j] = x.Points[j].Chosen
					}
					np[i] = alt
					explore(np, depth+1)
				}
			}
			if (cfg.Delay || p.Env || p.CurEnabled) && p.Chosen != 0 {
				dev++
			}
		}
	}
	explore(nil, 0)
	return st
}

func choices(x *vrt.Exec) []int {
	c := make([]int, len(x.Points))
	for i, p := range x.Points {
		c[i] = p.Chosen
	}
	return c
}
