// Package bfs is engine E2: explicit-state breadth-first search over real
// objects. A transition applies one real operation to a deep clone of the real
// object; states are deduplicated by a canonical key that must contain
// everything that can influence the future.
package bfs

import (
	"crypto/sha1"
	"sync"
	"sync/atomic"

	"verif/mc/enum"
)

// State is one explored state: the real object plus the model carried along.
type State struct {
	Obj  interface{} // the real object (never mutated after creation)
	Hist []uint16    // operation indices from the seed
	Seed int
}

// System describes the explored system.
type System struct {
	// NumOps is the size of the operation alphabet.
	NumOps int
	// Apply clones s.Obj, applies op and returns the successor object, or
	// ok=false when op is not enabled in s. It may record violations itself.
	Apply func(s *State, op int) (succ interface{}, ok bool)
	// Key is the canonical serialisation of a state.
	Key func(obj interface{}) []byte
	// Check evaluates the invariants / differential oracle in a new distinct
	// state. It records violations itself.
	Check func(s *State)
}

// Stats of a search.
type Stats struct {
	States      int64
	Transitions int64
	MaxDepth    int
	Frontiers   []int
	Closed      bool // frontier exhausted before the depth bound
}

type key [20]byte

// Run explores from the seeds to maxDepth (or closure). stop is polled between
// levels and items.
func Run(sys System, seeds []interface{}, maxDepth int, stop func() bool) Stats {
	var st Stats
	seen := map[key]struct{}{}
	var frontier []*State
	for i, o := range seeds {
		s := &State{Obj: o, Seed: i}
		k := sha1.Sum(sys.Key(o))
		if _, dup := seen[k]; dup {
			continue
		}
		seen[k] = struct{}{}
		frontier = append(frontier, s)
	}
	enum.Parallel(len(frontier), nil, func(i int) { sys.Check(frontier[i]) })
	st.States = int64(len(frontier))
	st.Frontiers = append(st.Frontiers, len(frontier))
	var mu sync.Mutex
	for depth := 1; depth <= maxDepth && len(frontier) > 0; depth++ {
		if stop != nil && stop() {
			return st
		}
		var next []*State
		var trans int64
		enum.Parallel(len(frontier), stop, func(i int) {
			s := frontier[i]
			var local []*State
			var lk []key
			for op := 0; op < sys.NumOps; op++ {
				o, ok := sys.Apply(s, op)
				if !ok {
					continue
				}
				atomic.AddInt64(&trans, 1)
				if o == nil {
					continue // self-loop verified by Apply
				}
				k := sha1.Sum(sys.Key(o))
				h := make([]uint16, len(s.Hist)+1)
				copy(h, s.Hist)
				h[len(s.Hist)] = uint16(op)
				local = append(local, &State{Obj: o, Hist: h, Seed: s.Seed})
				lk = append(lk, k)
			}
			mu.Lock()
			for j, k := range lk {
				if _, dup := seen[k]; !dup {
					seen[k] = struct{}{}
					next = append(next, local[j])
				}
			}
			mu.Unlock()
			frontier[i] = nil
		})
		st.Transitions += trans
		if stop != nil && stop() {
			return st
		}
		enum.Parallel(len(next), nil, func(i int) { sys.Check(next[i]) })
		st.States += int64(len(next))
		if len(next) > 0 {
			st.MaxDepth = depth
			st.Frontiers = append(st.Frontiers, len(next))
		}
		frontier = next
	}
	st.Closed = len(frontier) == 0
	return st
}
