// Package enum holds the small enumerators shared by the checks: a parallel
// index sweep that always covers the whole range, odometers, permutations.
package enum

import (
	"runtime"
	"runtime/debug"
	"sync"
	"sync/atomic"
)

// Workers is the number of goroutines used by Parallel.
func Workers() int {
	n := runtime.NumCPU()
	if n > 16 {
		n = 16
	}
	return n
}

// OnPanic, when set, receives a panic that escaped f(i) in Parallel together
// with its stack; it returns true when it has dealt with it (the item counts as
// done), false to let the panic continue.
var OnPanic func(i int, r interface{}, stack []byte) bool

func call(f func(int), i int) {
	if OnPanic != nil {
		defer func() {
			if r := recover(); r != nil {
				if !OnPanic(i, r, debug.Stack()) {
					panic(r)
				}
			}
		}()
	}
	f(i)
}

// Parallel calls f(i) for every i in [0,n), on Workers() goroutines. The union
// of the calls is always the whole range unless stop returns true, which is
// polled between items.
func Parallel(n int, stop func() bool, f func(i int)) (done int64) {
	var next int64 = -1
	var wg sync.WaitGroup
	var cnt int64
	for w := 0; w < Workers(); w++ {
		wg.Add(1)
		go func() {
			defer wg.Done()
			for {
				i := atomic.AddInt64(&next, 1)
				if i >= int64(n) {
					return
				}
				if stop != nil && stop() {
					return
				}
				call(f, int(i))
				atomic.AddInt64(&cnt, 1)
			}
		}()
	}
	wg.Wait()
	return cnt
}

// Odometer iterates over the product of the given radices; f receives the digit
// vector (reused between calls). Returns false from f to stop.
func Odometer(radix []int, f func(d []int) bool) {
	for _, r := range radix {
		if r == 0 {
			return
		}
	}
	d := make([]int, len(radix))
	for {
		if !f(d) {
			return
		}
		i := len(d) - 1
		for ; i >= 0; i-- {
			d[i]++
			if d[i] < radix[i] {
				break
			}
			d[i] = 0
		}
		if i < 0 {
			return
		}
	}
}

// Permutations calls f with every permutation of 0..n-1 (slice reused).
func Permutations(n int, f func(p []int) bool) {
	p := make([]int, n)
	for i := range p {
		p[i] = i
	}
	var rec func(k int) bool
	rec = func(k int) bool {
		if k == n {
			return f(p)
		}
		for i := k; i < n; i++ {
			p[k], p[i] = p[i], p[k]
			if !rec(k + 1) {
				return false
			}
			p[k], p[i] = p[i], p[k]
		}
		return true
	}
	rec(0)
}

// Sequences calls f with every sequence of length exactly l over 0..k-1.
func Sequences(k, l int, f func(s []int) bool) {
	r := make([]int, l)
	for i := range r {
		r[i] = k
	}
	if l == 0 {
		f(nil)
		return
	}
	Odometer(r, f)
}
