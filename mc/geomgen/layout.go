package geomgen

import (
	"fmt"
	"math"
	"strings"

	"github.com/ctessum/geom"
)

// FlatBacked returns a copy of g in the memory layout a caller gets when all
// vertices live in one flat buffer and every ring / line / member is cut out
// of it as buf[i:j]: the vertex slices follow each other in one backing array
// and each has spare capacity reaching into its successors (the last one into
// a sentinel vertex). A function that appends to such a slice, or reslices it
// beyond its length, writes into the caller's other rings. The second result
// reports whether the backing array (sentinel included) was written since.
func FlatBacked(g geom.Geom) (geom.Geom, func() string) {
	if g == nil {
		return nil, func() string { return "" }
	}
	n := len(Flatten(g))
	if b, ok := g.(*geom.Bounds); ok && b != nil {
		n = 0
	}
	buf := make([]geom.Point, n+1)
	sentinel := geom.Point{X: 1234.5, Y: -4321.25}
	buf[n] = sentinel
	pos := 0
	cut := func(p []geom.Point) []geom.Point {
		if p == nil {
			return nil
		}
		s := buf[pos : pos+len(p)]
		copy(s, p)
		pos += len(p)
		return s
	}
	var lay func(g geom.Geom) geom.Geom
	lay = func(g geom.Geom) geom.Geom {
		switch t := g.(type) {
		case geom.MultiPoint:
			return geom.MultiPoint(cut(t))
		case geom.LineString:
			return geom.LineString(cut(t))
		case geom.MultiLineString:
			if t == nil {
				return t
			}
			o := make(geom.MultiLineString, len(t))
			for i := range t {
				o[i] = geom.LineString(cut(t[i]))
			}
			return o
		case geom.Polygon:
			if t == nil {
				return t
			}
			o := make(geom.Polygon, len(t))
			for i := range t {
				o[i] = cut(t[i])
			}
			return o
		case geom.MultiPolygon:
			if t == nil {
				return t
			}
			o := make(geom.MultiPolygon, len(t))
			for i := range t {
				if t[i] == nil {
					continue
				}
				o[i] = make(geom.Polygon, len(t[i]))
				for j := range t[i] {
					o[i][j] = cut(t[i][j])
				}
			}
			return o
		case geom.GeometryCollection:
			if t == nil {
				return t
			}
			o := make(geom.GeometryCollection, len(t))
			for i := range t {
				o[i] = lay(t[i])
			}
			return o
		case *geom.Bounds:
			if t == nil {
				return t
			}
			c := *t
			return &c
		}
		return g // Point and anything without vertex slices
	}
	out := lay(g)
	saved := append([]geom.Point{}, buf...)
	return out, func() string {
		for i := range buf {
			if math.Float64bits(buf[i].X) != math.Float64bits(saved[i].X) || math.Float64bits(buf[i].Y) != math.Float64bits(saved[i].Y) {
				what := fmt.Sprintf("vertex %d of the caller's flat buffer", i)
				if i == n {
					what = "the element behind the last vertex slice"
				}
				return fmt.Sprintf("%s was overwritten: %v -> %v", what, saved[i], buf[i])
			}
		}
		return ""
	}
}

// LayoutCheck evaluates f on g and on the flat-backed copy of g. f returns a
// comparable rendering of everything the call observes. The result is "" or a
// symptom: the rendering differs between the two layouts, or the call wrote
// into the caller's buffer.
func LayoutCheck(g geom.Geom, f func(geom.Geom) string) (sym, detail string) {
	want := f(g)
	fb, written := FlatBacked(g)
	got := f(fb)
	if w := written(); w != "" {
		return "caller-buffer-written", w
	}
	if got != want {
		return "result-depends-on-memory-layout", fmt.Sprintf("own storage per ring: %s; rings cut from one buffer: %s", want, got)
	}
	// a second call on the same value must see the same input
	if again := f(fb); again != got {
		return "result-changes-on-second-call", fmt.Sprintf("first %s, second %s", got, again)
	}
	return "", ""
}

// Render is a canonical text form of a geometry: type names, nesting and the
// bit patterns of all coordinates (no pointer values, unlike %v on a nested
// *Bounds).
func Render(g geom.Geom) string {
	pts := func(p []geom.Point) string {
		if p == nil {
			return "nil"
		}
		var s strings.Builder
		s.WriteString("[")
		for _, q := range p {
			fmt.Fprintf(&s, "(%x %x)", math.Float64bits(q.X), math.Float64bits(q.Y))
		}
		s.WriteString("]")
		return s.String()
	}
	switch t := g.(type) {
	case nil:
		return "<nil>"
	case geom.Point:
		return "Point" + pts([]geom.Point{t})
	case geom.MultiPoint:
		return "MultiPoint" + pts(t)
	case geom.LineString:
		return "LineString" + pts(t)
	case geom.MultiLineString:
		s := "MultiLineString{"
		for _, l := range t {
			s += pts(l)
		}
		return s + "}"
	case geom.Polygon:
		s := "Polygon{"
		for _, r := range t {
			s += pts(r)
		}
		return s + "}"
	case geom.MultiPolygon:
		s := "MultiPolygon{"
		for _, p := range t {
			s += Render(p)
		}
		return s + "}"
	case geom.GeometryCollection:
		s := "GeometryCollection{"
		for _, m := range t {
			s += Render(m)
		}
		return s + "}"
	case *geom.Bounds:
		if t == nil {
			return "Bounds(nil)"
		}
		return "Bounds" + pts([]geom.Point{t.Min, t.Max})
	}
	return fmt.Sprintf("%T?", g)
}
