// Package geomgen enumerates structure trees ("skeletons") of the eight geom
// types and builds real geometries from them. It also holds the independent
// reference traversal used as an oracle by several checks.
package geomgen

import (
	"fmt"
	"math"
	"strings"

	"github.com/ctessum/geom"
)

// Kind of a skeleton node.
type Kind int

const (
	KPoint Kind = iota
	KMultiPoint
	KLineString
	KMultiLineString
	KPolygon
	KMultiPolygon
	KCollection
	KBounds
	KRing // only inside a polygon
)

var kindNames = []string{"Point", "MultiPoint", "LineString", "MultiLineString", "Polygon", "MultiPolygon", "GeometryCollection", "Bounds", "Ring"}

func (k Kind) String() string { return kindNames[k] }

// Skel is a structure tree: N vertices for flat kinds, Kids otherwise.
type Skel struct {
	Kind Kind
	N    int
	Kids []Skel
}

func (s Skel) String() string {
	switch s.Kind {
	case KPoint:
		return "P"
	case KBounds:
		return "B"
	case KMultiPoint:
		return fmt.Sprintf("MP%d", s.N)
	case KLineString:
		return fmt.Sprintf("L%d", s.N)
	case KRing:
		return fmt.Sprintf("%d", s.N)
	}
	var ks []string
	for _, k := range s.Kids {
		ks = append(ks, k.String())
	}
	n := map[Kind]string{KMultiLineString: "ML", KPolygon: "PG", KMultiPolygon: "MPG", KCollection: "GC"}[s.Kind]
	return n + "(" + strings.Join(ks, ",") + ")"
}

// NPoints is the number of coordinate pairs Build will draw.
func (s Skel) NPoints() int {
	switch s.Kind {
	case KPoint:
		return 1
	case KBounds:
		return 2
	case KMultiPoint, KLineString, KRing:
		return s.N
	}
	n := 0
	for _, k := range s.Kids {
		n += k.NPoints()
	}
	return n
}

// NElems counts the nodes that carry their own WKB header.
func (s Skel) NElems() int {
	n := 1
	switch s.Kind {
	case KMultiPoint:
		return 1 + s.N
	case KMultiLineString, KMultiPolygon, KCollection:
		for _, k := range s.Kids {
			n += k.NElems()
		}
	}
	return n
}

// Build makes the real geometry, drawing coordinates from next in storage
// order. A Bounds draws two points (min, max) and the caller must make sure
// they are ordered if that matters.
func Build(s Skel, next func() geom.Point) geom.Geom {
	pts := func(n int) []geom.Point {
		o := make([]geom.Point, n)
		for i := range o {
			o[i] = next()
		}
		return o
	}
	switch s.Kind {
	case KPoint:
		return next()
	case KBounds:
		a, b := next(), next()
		if s.N == -1 {
			// an inverted box (Max below Min: Empty() is true) with finite corners
			return &geom.Bounds{Min: b, Max: a}
		}
		return &geom.Bounds{Min: a, Max: b}
	case KMultiPoint:
		return geom.MultiPoint(pts(s.N))
	case KLineString:
		return geom.LineString(pts(s.N))
	case KMultiLineString:
		o := make(geom.MultiLineString, len(s.Kids))
		for i, k := range s.Kids {
			o[i] = geom.LineString(pts(k.N))
		}
		return o
	case KPolygon:
		o := make(geom.Polygon, len(s.Kids))
		for i, k := range s.Kids {
			o[i] = geom.Path(pts(k.N))
		}
		return o
	case KMultiPolygon:
		o := make(geom.MultiPolygon, len(s.Kids))
		for i, k := range s.Kids {
			o[i] = Build(k, next).(geom.Polygon)
		}
		return o
	case KCollection:
		o := make(geom.GeometryCollection, len(s.Kids))
		for i, k := range s.Kids {
			o[i] = Build(k, next)
		}
		return o
	}
	panic("geomgen: bad kind")
}

// Flatten is the independent reference traversal: the vertices of g in storage
// order (a *Bounds contributes its four corners min, (maxx,miny), max,
// (minx,maxy), as documented by Bounds.Points).
func Flatten(g geom.Geom) []geom.Point {
	var o []geom.Point
	switch t := g.(type) {
	case geom.Point:
		o = append(o, t)
	case *geom.Bounds:
		o = append(o, t.Min, geom.Point{X: t.Max.X, Y: t.Min.Y}, t.Max, geom.Point{X: t.Min.X, Y: t.Max.Y})
	case geom.MultiPoint:
		o = append(o, t...)
	case geom.LineString:
		o = append(o, t...)
	case geom.MultiLineString:
		for _, l := range t {
			o = append(o, l...)
		}
	case geom.Polygon:
		for _, r := range t {
			o = append(o, r...)
		}
	case geom.MultiPolygon:
		for _, p := range t {
			for _, r := range p {
				o = append(o, r...)
			}
		}
	case geom.GeometryCollection:
		for _, m := range t {
			o = append(o, Flatten(m)...)
		}
	default:
		panic(fmt.Sprintf("geomgen: unknown type %T", g))
	}
	return o
}

func seqs(alpha []Skel, maxLen int) [][]Skel {
	out := [][]Skel{{}}
	prev := [][]Skel{{}}
	for l := 1; l <= maxLen; l++ {
		var cur [][]Skel
		for _, p := range prev {
			for _, a := range alpha {
				q := append(append([]Skel{}, p...), a)
				cur = append(cur, q)
			}
		}
		out = append(out, cur...)
		prev = cur
	}
	return out
}

// Config bounds the enumeration.
type Config struct {
	MaxMembers int   // members per multi-geometry (0..MaxMembers)
	Lens       []int // vertex counts of rings / member lines
	FlatMax    int   // MultiPoint / LineString vertex counts 0..FlatMax
	PolyRings  int   // rings per polygon inside a multipolygon (0..PolyRings)
	Depth      int   // collection nesting depth (0 = no collections)
	GCMembers  int   // members per collection
	Bounds     bool  // include *Bounds
}

// Simple enumerates all non-collection skeletons within cfg.
func Simple(cfg Config) []Skel {
	var out []Skel
	out = append(out, Skel{Kind: KPoint})
	if cfg.Bounds {
		out = append(out, Skel{Kind: KBounds})
	}
	for n := 0; n <= cfg.FlatMax; n++ {
		out = append(out, Skel{Kind: KMultiPoint, N: n}, Skel{Kind: KLineString, N: n})
	}
	var rings []Skel
	for _, n := range cfg.Lens {
		rings = append(rings, Skel{Kind: KRing, N: n})
	}
	for _, s := range seqs(rings, cfg.MaxMembers) {
		out = append(out, Skel{Kind: KMultiLineString, Kids: s}, Skel{Kind: KPolygon, Kids: s})
	}
	var polys []Skel
	for _, s := range seqs(rings, cfg.PolyRings) {
		polys = append(polys, Skel{Kind: KPolygon, Kids: s})
	}
	for _, s := range seqs(polys, cfg.MaxMembers) {
		out = append(out, Skel{Kind: KMultiPolygon, Kids: s})
	}
	return out
}

// Collections enumerates collections of the given member alphabet nested to
// cfg.Depth, with 0..cfg.GCMembers members.
func Collections(members []Skel, cfg Config) []Skel {
	var out []Skel
	alpha := members
	for d := 1; d <= cfg.Depth; d++ {
		var level []Skel
		for _, s := range seqs(alpha, cfg.GCMembers) {
			level = append(level, Skel{Kind: KCollection, Kids: s})
		}
		out = append(out, level...)
		// next depth: members are the base alphabet plus a few collections
		// of this level (empty, singleton-of-each-kind capped) to keep the
		// product finite and small.
		alpha = append(append([]Skel{}, members...), pick(level, 6)...)
	}
	return out
}

func pick(l []Skel, n int) []Skel {
	if len(l) <= n {
		return l
	}
	var o []Skel
	step := len(l) / n
	for i := 0; i < n; i++ {
		o = append(o, l[i*step])
	}
	return o
}

// Diff compares two geometries structurally: same dynamic type, same nesting
// and member counts (nil and empty slices are the same), and coordinates equal
// bit for bit (bits=true) or by == (bits=false). It returns "" when equal.
func Diff(a, b geom.Geom, bits bool) string {
	eq := func(x, y float64) bool {
		if bits {
			return math.Float64bits(x) == math.Float64bits(y)
		}
		return x == y
	}
	pts := func(x, y []geom.Point, where string) string {
		if len(x) != len(y) {
			return fmt.Sprintf("%s: %d vertices vs %d", where, len(x), len(y))
		}
		for i := range x {
			if !eq(x[i].X, y[i].X) || !eq(x[i].Y, y[i].Y) {
				return fmt.Sprintf("%s vertex %d: (%x,%x) vs (%x,%x)", where, i, math.Float64bits(x[i].X), math.Float64bits(x[i].Y), math.Float64bits(y[i].X), math.Float64bits(y[i].Y))
			}
		}
		return ""
	}
	if a == nil || b == nil {
		if a == nil && b == nil {
			return ""
		}
		return fmt.Sprintf("nil vs non-nil: %T vs %T", a, b)
	}
	switch x := a.(type) {
	case geom.Point:
		y, ok := b.(geom.Point)
		if !ok {
			return fmt.Sprintf("type %T vs %T", a, b)
		}
		return pts([]geom.Point{x}, []geom.Point{y}, "point")
	case *geom.Bounds:
		y, ok := b.(*geom.Bounds)
		if !ok {
			return fmt.Sprintf("type %T vs %T", a, b)
		}
		return pts([]geom.Point{x.Min, x.Max}, []geom.Point{y.Min, y.Max}, "bounds")
	case geom.MultiPoint:
		y, ok := b.(geom.MultiPoint)
		if !ok {
			return fmt.Sprintf("type %T vs %T", a, b)
		}
		return pts(x, y, "multipoint")
	case geom.LineString:
		y, ok := b.(geom.LineString)
		if !ok {
			return fmt.Sprintf("type %T vs %T", a, b)
		}
		return pts(x, y, "linestring")
	case geom.MultiLineString:
		y, ok := b.(geom.MultiLineString)
		if !ok {
			return fmt.Sprintf("type %T vs %T", a, b)
		}
		if len(x) != len(y) {
			return fmt.Sprintf("multilinestring: %d members vs %d", len(x), len(y))
		}
		for i := range x {
			if d := pts(x[i], y[i], fmt.Sprintf("line %d", i)); d != "" {
				return d
			}
		}
	case geom.Polygon:
		y, ok := b.(geom.Polygon)
		if !ok {
			return fmt.Sprintf("type %T vs %T", a, b)
		}
		if len(x) != len(y) {
			return fmt.Sprintf("polygon: %d rings vs %d", len(x), len(y))
		}
		for i := range x {
			if d := pts(x[i], y[i], fmt.Sprintf("ring %d", i)); d != "" {
				return d
			}
		}
	case geom.MultiPolygon:
		y, ok := b.(geom.MultiPolygon)
		if !ok {
			return fmt.Sprintf("type %T vs %T", a, b)
		}
		if len(x) != len(y) {
			return fmt.Sprintf("multipolygon: %d members vs %d", len(x), len(y))
		}
		for i := range x {
			if d := Diff(x[i], y[i], bits); d != "" {
				return fmt.Sprintf("polygon %d: %s", i, d)
			}
		}
	case geom.GeometryCollection:
		y, ok := b.(geom.GeometryCollection)
		if !ok {
			return fmt.Sprintf("type %T vs %T", a, b)
		}
		if len(x) != len(y) {
			return fmt.Sprintf("collection: %d members vs %d", len(x), len(y))
		}
		for i := range x {
			if d := Diff(x[i], y[i], bits); d != "" {
				return fmt.Sprintf("member %d: %s", i, d)
			}
		}
	default:
		return fmt.Sprintf("unknown type %T", a)
	}
	return ""
}

// FinitePatterns are the finite float64 values used by the text codecs' checks:
// values needing 17 significant digits, exponent notation boundaries,
// subnormals, signed zero, extremes.
var FinitePatterns = []float64{
	math.Copysign(0, -1), 5e-324, 2.2250738585072014e-308, 0.1, 1.0 / 3.0, 1e21, 1e20,
	1e-7, 123456789.12345678, math.MaxFloat64, -math.MaxFloat64, 9007199254740994, 1e-6, -1.5,
	0.30000000000000004, 1e19, 9.223372036854775807e18, 100, 0,
	// one ulp from a short decimal at the magnitude of projected coordinates
	// (what arithmetic on short decimals produces), and 2^63
	123456.70000000001, 457200.30480000004, 98765432.099999994,
}

// FirstMemberNonEmpty reports whether the first member (recursively) of s has
// at least one vertex; AllMembersNonEmpty whether every member has.
func FirstMemberNonEmpty(s Skel) bool {
	switch s.Kind {
	case KPoint, KBounds:
		return true
	case KMultiPoint, KLineString, KRing:
		return s.N > 0
	}
	return len(s.Kids) > 0 && FirstMemberNonEmpty(s.Kids[0])
}

// AllMembersNonEmpty reports whether every member (recursively) has a vertex.
func AllMembersNonEmpty(s Skel) bool {
	switch s.Kind {
	case KPoint, KBounds:
		return true
	case KMultiPoint, KLineString, KRing:
		return s.N > 0
	}
	if len(s.Kids) == 0 {
		return false
	}
	for _, k := range s.Kids {
		if !AllMembersNonEmpty(k) {
			return false
		}
	}
	return true
}

// BitPatterns are the twelve 64-bit coordinate patterns of the binary codecs'
// checks.
var BitPatterns = []uint64{
	0x0000000000000000, 0x8000000000000000, 0x3ff0000000000000, 0xbff8000000000000,
	0x7ff8000000000001, 0x7ff0000000000001, 0xfff8000000abcdef, 0x7ff0000000000000,
	0xfff0000000000000, 0x0000000000000001, 0x000fffffffffffff, 0x0102030405060708,
}
