// Package exact holds the planar-geometry reference models: exact integer
// predicates (orientation, on-segment, general position, even-odd membership,
// margins) on scaled integer coordinates, and a slab decomposition that
// computes the areas of the boolean combinations of two even-odd regions (in
// float64 on exactly representable inputs; error ~1e-13 relative, far below the
// 1e-9 tolerance of the checks that use it).
package exact

import (
	"math"
	"sort"
)

// Pt is a point in scaled integer coordinates.
type Pt struct{ X, Y int64 }

// Region is a set of rings interpreted with the even-odd rule (rings are
// implicitly closed; a repeated closing vertex is harmless).
type Region [][]Pt

func Cross(o, a, b Pt) int64 { return (a.X-o.X)*(b.Y-o.Y) - (a.Y-o.Y)*(b.X-o.X) }

func OnSeg(a, b, p Pt) bool {
	return Cross(a, b, p) == 0 && min(a.X, b.X) <= p.X && p.X <= max(a.X, b.X) && min(a.Y, b.Y) <= p.Y && p.Y <= max(a.Y, b.Y)
}

func sgn(a int64) int {
	if a > 0 {
		return 1
	}
	if a < 0 {
		return -1
	}
	return 0
}

// SegsMeet reports whether the closed segments ab and cd share a point.
func SegsMeet(a, b, c, d Pt) bool {
	d1, d2 := sgn(Cross(a, b, c)), sgn(Cross(a, b, d))
	d3, d4 := sgn(Cross(c, d, a)), sgn(Cross(c, d, b))
	if d1*d2 < 0 && d3*d4 < 0 {
		return true
	}
	return OnSeg(a, b, c) || OnSeg(a, b, d) || OnSeg(c, d, a) || OnSeg(c, d, b)
}

// Classify returns (inside, onBoundary) of p with respect to r.
func Classify(r Region, p Pt) (bool, bool) {
	in := false
	for _, ring := range r {
		n := len(ring)
		for i := 0; i < n; i++ {
			a, b := ring[i], ring[(i+1)%n]
			if OnSeg(a, b, p) {
				return false, true
			}
			if (a.Y > p.Y) != (b.Y > p.Y) {
				l := (p.X - a.X) * (b.Y - a.Y)
				rr := (p.Y - a.Y) * (b.X - a.X)
				if (b.Y-a.Y > 0 && l < rr) || (b.Y-a.Y < 0 && l > rr) {
					in = !in
				}
			}
		}
	}
	return in, false
}

// Margin reports whether p is at least m away from every edge of r.
func Margin(r Region, p Pt, m int64) bool {
	for _, ring := range r {
		n := len(ring)
		for i := 0; i < n; i++ {
			a, b := ring[i], ring[(i+1)%n]
			dx, dy := b.X-a.X, b.Y-a.Y
			l2 := dx*dx + dy*dy
			t := (p.X-a.X)*dx + (p.Y-a.Y)*dy
			var num, den int64
			switch {
			case l2 == 0 || t <= 0:
				num, den = (p.X-a.X)*(p.X-a.X)+(p.Y-a.Y)*(p.Y-a.Y), 1
			case t >= l2:
				num, den = (p.X-b.X)*(p.X-b.X)+(p.Y-b.Y)*(p.Y-b.Y), 1
			default:
				c := Cross(a, b, p)
				// c*c may be large; coordinates in the checks are < 2^15 so c < 2^31
				num, den = c*c, l2
			}
			if float64(num) < float64(m*m)*float64(den) {
				return false
			}
		}
	}
	return true
}

// GeneralPosition reports whether no vertex of one region lies on an edge of
// the other (which also excludes shared vertices and collinear overlaps).
func GeneralPosition(a, b Region) bool {
	chk := func(x, y Region) bool {
		for _, rx := range x {
			for _, v := range rx {
				for _, ry := range y {
					n := len(ry)
					for i := 0; i < n; i++ {
						if OnSeg(ry[i], ry[(i+1)%n], v) {
							return false
						}
					}
				}
			}
		}
		return true
	}
	return chk(a, b) && chk(b, a)
}

// FPt is a float point; FRegion a float even-odd region.
type FPt struct{ X, Y float64 }
type FRegion [][]FPt

// ToF converts with the given scale divisor.
func ToF(r Region, scale float64) FRegion {
	o := make(FRegion, len(r))
	for i, ring := range r {
		o[i] = make([]FPt, len(ring))
		for j, p := range ring {
			o[i][j] = FPt{float64(p.X) / scale, float64(p.Y) / scale}
		}
	}
	return o
}

// InsideF is the even-odd test for float regions (points are assumed to have a
// clear margin from every edge).
func InsideF(r FRegion, p FPt) bool {
	in := false
	for _, ring := range r {
		n := len(ring)
		for i := 0; i < n; i++ {
			a, b := ring[i], ring[(i+1)%n]
			if (a.Y > p.Y) != (b.Y > p.Y) {
				x := a.X + (p.Y-a.Y)*(b.X-a.X)/(b.Y-a.Y)
				if p.X < x {
					in = !in
				}
			}
		}
	}
	return in
}

type edge struct {
	x0, y0, x1, y1 float64 // x0 < x1
	owner          int
}

func (e edge) at(x float64) float64 {
	if x == e.x0 {
		return e.y0
	}
	if x == e.x1 {
		return e.y1
	}
	return e.y0 + (x-e.x0)*(e.y1-e.y0)/(e.x1-e.x0)
}

// Areas returns the areas of A∩B, A∪B, A\B and A xor B (even-odd regions) by
// slab decomposition.
func Areas(a, b FRegion) (and, or, diff, xor float64) {
	var es []edge
	var xs []float64
	add := func(r FRegion, owner int) {
		for _, ring := range r {
			n := len(ring)
			for i := 0; i < n; i++ {
				p, q := ring[i], ring[(i+1)%n]
				xs = append(xs, p.X)
				if p.X == q.X {
					continue
				}
				if p.X > q.X {
					p, q = q, p
				}
				es = append(es, edge{p.X, p.Y, q.X, q.Y, owner})
			}
		}
	}
	add(a, 0)
	add(b, 1)
	for i := range es {
		for j := i + 1; j < len(es); j++ {
			e, f := es[i], es[j]
			lo, hi := math.Max(e.x0, f.x0), math.Min(e.x1, f.x1)
			if lo >= hi {
				continue
			}
			// intersection of the two lines
			se := (e.y1 - e.y0) / (e.x1 - e.x0)
			sf := (f.y1 - f.y0) / (f.x1 - f.x0)
			if se == sf {
				continue
			}
			x := (f.y0 - e.y0 + se*e.x0 - sf*f.x0) / (se - sf)
			if x > lo && x < hi {
				xs = append(xs, x)
			}
		}
	}
	sort.Float64s(xs)
	type act struct {
		ym, yl, yr float64
		owner      int
	}
	for i := 0; i+1 < len(xs); i++ {
		xl, xr := xs[i], xs[i+1]
		if xr-xl <= 0 {
			continue
		}
		xm := (xl + xr) / 2
		var as []act
		for _, e := range es {
			if e.x0 <= xl && e.x1 >= xr {
				as = append(as, act{e.at(xm), e.at(xl), e.at(xr), e.owner})
			}
		}
		sort.Slice(as, func(p, q int) bool { return as[p].ym < as[q].ym })
		inA, inB := false, false
		for k := 0; k+1 <= len(as)-1; k++ {
			if as[k].owner == 0 {
				inA = !inA
			} else {
				inB = !inB
			}
			ar := ((as[k+1].yl - as[k].yl) + (as[k+1].yr - as[k].yr)) / 2 * (xr - xl)
			if inA && inB {
				and += ar
			}
			if inA || inB {
				or += ar
			}
			if inA && !inB {
				diff += ar
			}
			if inA != inB {
				xor += ar
			}
		}
	}
	return
}

// Area of one even-odd float region.
func Area(r FRegion) float64 {
	_, or, _, _ := Areas(r, nil)
	return or
}
