// Package fault is engine E4's process layer: an index-addressable case space is
// swept by isolated worker subprocesses (single goroutine, address-space limit)
// that announce every case before running it, so that a worker that dies or
// stops responding is attributed to exactly one case and restarted after it.
package fault

import (
	"bufio"
	"encoding/json"
	"fmt"
	"os"
	"os/exec"
	"strconv"
	"strings"
	"sync"
	"time"

	"verif/mc/report"
)

// Result is what one executed case reports.
type Result struct {
	Sig    string      `json:"sig,omitempty"`
	Detail interface{} `json:"detail,omitempty"`
}

// Summary is the final line of a worker.
type Summary struct {
	Cases      int64            `json:"cases"`
	Nontrivial int64            `json:"nontrivial"`
	Counters   map[string]int64 `json:"counters"`
	Samples    []string         `json:"samples"`
	MaxRatio   float64          `json:"max_ratio"`
}

// Worker is called in the subprocess: it must call run(idx) for every case of
// its shard with idx >= start, in increasing order, and return its summary.
type Worker func(shard, nshards int, start int64, announce func(idx int64), viol func(idx int64, sig string, detail interface{})) Summary

// IsWorker reports whether this process was started as a worker; if so it
// runs w and exits.
func IsWorker(w Worker) {
	if len(os.Args) < 5 || os.Args[1] != "worker" {
		return
	}
	shard, _ := strconv.Atoi(os.Args[2])
	n, _ := strconv.Atoi(os.Args[3])
	start, _ := strconv.ParseInt(os.Args[4], 10, 64)
	out := bufio.NewWriterSize(os.Stdout, 1<<16)
	announce := func(idx int64) {
		out.WriteString("C ")
		out.WriteString(strconv.FormatInt(idx, 10))
		out.WriteByte('\n')
		out.Flush()
	}
	viol := func(idx int64, sig string, detail interface{}) {
		b, _ := json.Marshal(map[string]interface{}{"idx": idx, "sig": sig, "detail": detail})
		out.WriteString("V ")
		out.Write(b)
		out.WriteByte('\n')
		out.Flush()
	}
	s := w(shard, n, start, announce, viol)
	b, _ := json.Marshal(s)
	out.WriteString("D ")
	out.Write(b)
	out.WriteByte('\n')
	out.Flush()
	os.Exit(0)
}

// Sweep runs nshards workers of the current binary over the case space and
// merges their reports into r. describe renders a case index for the report of
// a dead/hung worker. memKB is the address-space limit of each worker.
func Sweep(r *report.Run, nshards int, memKB int64, silence time.Duration, describe func(idx int64) (sig string, detail interface{})) Summary {
	self, err := os.Executable()
	if err != nil {
		report.Harness("%v", err)
	}
	total := Summary{Counters: map[string]int64{}}
	var mu sync.Mutex
	var wg sync.WaitGroup
	for sh := 0; sh < nshards; sh++ {
		wg.Add(1)
		go func(sh int) {
			defer wg.Done()
			start := int64(0)
			for attempt := 0; attempt < 2000; attempt++ {
				last, done, sum := runWorker(r, self, sh, nshards, start, memKB, silence)
				if done {
					mu.Lock()
					total.Cases += sum.Cases
					total.Nontrivial += sum.Nontrivial
					for k, v := range sum.Counters {
						total.Counters[k] += v
					}
					if sum.MaxRatio > total.MaxRatio {
						total.MaxRatio = sum.MaxRatio
					}
					if len(total.Samples) < 12 {
						total.Samples = append(total.Samples, sum.Samples...)
					}
					mu.Unlock()
					return
				}
				// the worker died or hung in case `last`
				sig, det := describe(last)
				r.Violation(sig, det)
				mu.Lock()
				total.Counters["worker_deaths"]++
				mu.Unlock()
				start = last + 1
				if r.Expired() {
					return
				}
			}
			report.Harness("worker shard %d restarted too often", sh)
		}(sh)
	}
	wg.Wait()
	return total
}

func runWorker(r *report.Run, self string, sh, n int, start int64, memKB int64, silence time.Duration) (last int64, done bool, sum Summary) {
	cmd := exec.Command("/bin/sh", "-c", fmt.Sprintf("ulimit -v %d; exec \"$0\" \"$@\"", memKB), self, "worker", strconv.Itoa(sh), strconv.Itoa(n), strconv.FormatInt(start, 10))
	cmd.Env = append(os.Environ(), "GOMAXPROCS=1", "GOGC=50")
	stdout, err := cmd.StdoutPipe()
	if err != nil {
		report.Harness("%v", err)
	}
	var stderr strings.Builder
	cmd.Stderr = &limitedWriter{w: &stderr, n: 4096}
	if err := cmd.Start(); err != nil {
		report.Harness("cannot start worker: %v", err)
	}
	last = start - 1
	lines := make(chan string, 1024)
	go func() {
		sc := bufio.NewScanner(stdout)
		sc.Buffer(make([]byte, 1<<20), 1<<26)
		for sc.Scan() {
			lines <- sc.Text()
		}
		close(lines)
	}()
	timer := time.NewTimer(silence)
	defer timer.Stop()
	for {
		select {
		case l, ok := <-lines:
			if !ok {
				cmd.Wait()
				return last, done, sum
			}
			if !timer.Stop() {
				select {
				case <-timer.C:
				default:
				}
			}
			timer.Reset(silence)
			switch {
			case strings.HasPrefix(l, "C "):
				last, _ = strconv.ParseInt(l[2:], 10, 64)
			case strings.HasPrefix(l, "V "):
				var v struct {
					Idx    int64
					Sig    string
					Detail interface{}
				}
				if err := json.Unmarshal([]byte(l[2:]), &v); err != nil {
					report.Harness("bad worker line: %v", err)
				}
				r.Violation(v.Sig, v.Detail)
			case strings.HasPrefix(l, "D "):
				if err := json.Unmarshal([]byte(l[2:]), &sum); err != nil {
					report.Harness("bad worker summary: %v", err)
				}
				done = true
			}
		case <-timer.C:
			cmd.Process.Kill()
			cmd.Wait()
			return last, false, sum
		}
	}
}

type limitedWriter struct {
	w *strings.Builder
	n int
}

func (l *limitedWriter) Write(p []byte) (int, error) {
	if l.n > 0 {
		k := len(p)
		if k > l.n {
			k = l.n
		}
		l.w.Write(p[:k])
		l.n -= k
	}
	return len(p), nil
}
