// c18race is the separate, free-running data-race pass that accompanies C18
// (supporting evidence, never deciding): the sharp documents are extracted by
// the UN-instrumented encoding/osm package under the Go race detector with real
// parallelism, many times each, and the outcome is compared with the least
// fixpoint. A cooperative scheduler's hand-offs are happens-before edges and
// would blind the detector, hence this separate program:
//
//	go run -race ./checks/c18race [repetitions]
package main

import (
	"context"
	"fmt"
	"os"
	"runtime"
	"sort"
	"strconv"
	"strings"

	"github.com/ctessum/geom"
	gosm "github.com/ctessum/geom/encoding/osm"
)

var docs = []struct{ xml, want string }{
	{`<osm><node id="1" lat="0" lon="0"/><way id="1"><nd ref="1"/><nd ref="2"/></way><node id="2" lat="7" lon="7"/></osm>`, "n1,n2,w1"},
	{`<osm><way id="1"><nd ref="1"/><nd ref="2"/></way><node id="1" lat="0" lon="0"/><node id="2" lat="7" lon="7"/></osm>`, "n1,n2,w1"},
	{`<osm><node id="1" lat="0" lon="0"/><node id="2" lat="7" lon="7"/><way id="1"><nd ref="1"/><nd ref="2"/></way><way id="2"><nd ref="2"/><nd ref="3"/></way><node id="3" lat="8" lon="8"/></osm>`, "n1,n2,n3,w1,w2"},
	{`<osm><node id="1" lat="0" lon="0"/><way id="1"><nd ref="1"/><nd ref="2"/></way><relation id="1"><member type="way" ref="1" role=""/></relation><node id="2" lat="7" lon="7"/></osm>`, "n1,n2,r1,w1"},
	{`<osm><relation id="2"><member type="relation" ref="1" role=""/></relation><relation id="1"><member type="node" ref="1" role=""/><member type="relation" ref="2" role=""/></relation><node id="1" lat="0" lon="0"/></osm>`, "n1,r1,r2"},
}

func main() {
	reps := 300
	if len(os.Args) > 1 {
		reps, _ = strconv.Atoi(os.Args[1])
	}
	keep := gosm.KeepBounds(&geom.Bounds{Min: geom.Point{X: -1, Y: -1}, Max: geom.Point{X: 1, Y: 1}})
	bad := 0
	for _, procs := range []int{2, 4, 16} {
		runtime.GOMAXPROCS(procs)
		for di, d := range docs {
			for r := 0; r < reps; r++ {
				data, err := gosm.ExtractXML(context.Background(), strings.NewReader(d.xml), keep, true)
				if err != nil {
					fmt.Println("error:", err)
					bad++
					continue
				}
				var k []string
				for id := range data.Nodes {
					k = append(k, fmt.Sprintf("n%d", id))
				}
				for id := range data.Ways {
					k = append(k, fmt.Sprintf("w%d", id))
				}
				for id := range data.Relations {
					k = append(k, fmt.Sprintf("r%d", id))
				}
				sort.Strings(k)
				if got := strings.Join(k, ","); got != d.want {
					fmt.Printf("GOMAXPROCS=%d document %d run %d: got {%s} want {%s}\n", procs, di, r, got, d.want)
					bad++
				}
			}
		}
	}
	fmt.Printf("c18race: %d extractions, %d wrong outcomes (data races, if any, are reported by the race detector above)\n", 3*len(docs)*reps, bad)
	if bad > 0 {
		os.Exit(1)
	}
}
