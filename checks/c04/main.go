// C04 — bounds are tight envelopes and vertex enumeration is complete and
// ordered. Bounded-exhaustive enumeration (engine E1) of structure trees ×
// coordinate substitutions on the real geom package, compared with an
// independent traversal; and all pairs / triples of boxes of a small lattice
// against interval algebra.
package main

import (
	"encoding/json"
	"fmt"
	"math"
	"os"
	"sync/atomic"

	"github.com/ctessum/geom"

	"verif/mc/enum"
	"verif/mc/geomgen"
	"verif/mc/report"
)

// Case is the replayable description of one geometry case.
type Case struct {
	Skel geomgen.Skel
	Subs []Sub // coordinate substitutions (slot = 2*vertex+axis)
}

// Sub replaces one coordinate slot by a special value.
type Sub struct {
	Slot int
	Val  int // 0: -0, 1: +Inf, 2: -Inf
}

var special = []float64{math.Copysign(0, -1), math.Inf(1), math.Inf(-1)}
var specialName = []string{"-0", "+Inf", "-Inf"}

func build(c Case) geom.Geom {
	i := 0
	subs := map[int]float64{}
	for _, s := range c.Subs {
		subs[s.Slot] = special[s.Val]
	}
	next := func() geom.Point {
		// scrambled but deterministic coordinates, all distinct per axis for
		// the sizes used here, so that order is observable.
		p := geom.Point{X: float64((i*7+3)%23) - 5, Y: float64((i*11+5)%29) - 9}
		if v, ok := subs[2*i]; ok {
			p.X = v
		}
		if v, ok := subs[2*i+1]; ok {
			p.Y = v
		}
		i++
		return p
	}
	g := geomgen.Build(c.Skel, next)
	return normalize(g)
}

// normalize orders the corners of every *Bounds (a box with Min > Max is not
// a geometry the property speaks about).
func normalize(g geom.Geom) geom.Geom {
	switch t := g.(type) {
	case *geom.Bounds:
		return &geom.Bounds{Min: geom.Point{X: math.Min(t.Min.X, t.Max.X), Y: math.Min(t.Min.Y, t.Max.Y)},
			Max: geom.Point{X: math.Max(t.Min.X, t.Max.X), Y: math.Max(t.Min.Y, t.Max.Y)}}
	case geom.GeometryCollection:
		for i := range t {
			t[i] = normalize(t[i])
		}
	}
	return g
}

func same(a, b float64) bool { return a == b } // ±0 not distinguished, no NaN in the alphabet

// checkGeom returns "" or a symptom for the geometry case.
func checkGeom(g geom.Geom) (symptom, detail string) {
	ref := geomgen.Flatten(g)
	var n int
	if p := try(func() { n = g.Len() }); p != "" {
		return "Len-panic", p
	}
	if n != len(ref) {
		return "Len-wrong", fmt.Sprintf("Len()=%d want %d", n, len(ref))
	}
	var got []geom.Point
	if p := try(func() {
		it := g.Points()
		for i := 0; i < n; i++ {
			got = append(got, it())
		}
	}); p != "" {
		return "Points-panic", p
	}
	for i := range ref {
		if !(same(got[i].X, ref[i].X) && same(got[i].Y, ref[i].Y)) {
			return "Points-order", fmt.Sprintf("vertex %d = %v want %v", i, got[i], ref[i])
		}
	}
	var b *geom.Bounds
	if p := try(func() { b = g.Bounds() }); p != "" {
		return "Bounds-panic", p
	}
	want := geom.NewBounds()
	for _, p := range ref {
		want.Min.X = math.Min(want.Min.X, p.X)
		want.Min.Y = math.Min(want.Min.Y, p.Y)
		want.Max.X = math.Max(want.Max.X, p.X)
		want.Max.Y = math.Max(want.Max.Y, p.Y)
	}
	if b == nil {
		return "Bounds-nil", "nil"
	}
	if len(ref) == 0 {
		if !b.Empty() {
			return "Bounds-not-empty", fmt.Sprintf("Bounds()=%v for a geometry without vertices", *b)
		}
		return "", ""
	}
	if !(same(b.Min.X, want.Min.X) && same(b.Min.Y, want.Min.Y) && same(b.Max.X, want.Max.X) && same(b.Max.Y, want.Max.Y)) {
		return "Bounds-wrong", fmt.Sprintf("Bounds()=%v want %v", *b, *want)
	}
	return "", ""
}

func try(f func()) (p string) {
	defer func() {
		if r := recover(); r != nil {
			p = fmt.Sprint(r)
		}
	}()
	f()
	return ""
}

// ---- boxes -----------------------------------------------------------------

type box struct{ X0, Y0, X1, Y1 float64 } // empty box: X0 > X1

func (b box) geom() *geom.Bounds {
	if b.X0 > b.X1 {
		return geom.NewBounds()
	}
	return &geom.Bounds{Min: geom.Point{X: b.X0, Y: b.Y0}, Max: geom.Point{X: b.X1, Y: b.Y1}}
}

func boxes(n int) []box {
	v := make([]float64, n)
	for i := range v {
		v[i] = float64(i)
	}
	return boxesOver(v)
}

// boxesOver: every closed box with corners from the ascending value list, and
// the empty box.
func boxesOver(v []float64) []box {
	var o []box
	n := len(v)
	for x0 := 0; x0 < n; x0++ {
		for x1 := x0; x1 < n; x1++ {
			for y0 := 0; y0 < n; y0++ {
				for y1 := y0; y1 < n; y1++ {
					o = append(o, box{v[x0], v[y0], v[x1], v[y1]})
				}
			}
		}
	}
	o = append(o, box{1, 1, 0, 0}) // the empty box (rendered as NewBounds())
	return o
}

func (b box) empty() bool { return b.X0 > b.X1 }

func join(a, b box) box {
	if a.empty() {
		return b
	}
	if b.empty() {
		return a
	}
	return box{math.Min(a.X0, b.X0), math.Min(a.Y0, b.Y0), math.Max(a.X1, b.X1), math.Max(a.Y1, b.Y1)}
}

func eqBox(g *geom.Bounds, b box) bool {
	if b.empty() {
		return g.Empty()
	}
	return g.Min.X == b.X0 && g.Min.Y == b.Y0 && g.Max.X == b.X1 && g.Max.Y == b.Y1
}

func main() {
	tier := "quick"
	if len(os.Args) > 1 {
		tier = os.Args[1]
	}
	if tier == "replay" {
		replay(os.Args[2])
		return
	}
	r := report.New("C04", tier, "model_checking")
	r.Rule = "E1: every structure tree of the 8 geometry types (members 0..3, ring/line lengths 0..2(3), collections nested to depth 2(3), *Bounds members) x every single and double substitution of {-0,+Inf,-Inf} into a coordinate slot; every geometry (<= 1 substitution) also with its vertex slices cut from one flat buffer (same answers, buffer not written, same answers on a second call); plus all pairs and triples of the closed boxes over a 4-value lattice per axis and the empty box, and the same over the extended-real lattice {-Inf,-0,1,+Inf} (unbounded boxes and boxes at infinity). Non-trivial = geometry has at least one empty member or a substituted coordinate; box tuples with at least one proper overlap."
	r.Assumptions = []string{"NaN coordinates are outside the alphabet (min/max semantics undefined)", "a *Bounds used as a geometry has Min<=Max"}

	cfg := geomgen.Config{MaxMembers: 3, Lens: []int{0, 1, 2}, FlatMax: 3, PolyRings: 2, Depth: 2, GCMembers: 2, Bounds: true}
	maxSubs := 2
	nb := 4
	if tier == "thorough" {
		cfg.Lens = []int{0, 1, 2, 3}
		cfg.GCMembers = 3
		cfg.Depth = 3
		maxSubs = 2
	}
	simple := geomgen.Simple(cfg)
	// collection members: a sub-alphabet with every kind and every kind of emptiness
	small := geomgen.Simple(geomgen.Config{MaxMembers: 2, Lens: []int{0, 1}, FlatMax: 1, PolyRings: 1, Bounds: true})
	skels := append(append([]geomgen.Skel{}, simple...), geomgen.Collections(small, cfg)...)
	seen := map[string]bool{}
	var uniq []geomgen.Skel
	for _, s := range skels {
		k := s.String()
		if !seen[k] {
			seen[k] = true
			uniq = append(uniq, s)
		}
	}
	skels = uniq
	// runs of empty members: every emptiness pattern of five members (lines of a
	// multi-line string, rings of a polygon, polygons of a multi-polygon, members
	// of a collection)
	for mask := 0; mask < 32; mask++ {
		var lines, rings, polys, mixed []geomgen.Skel
		for k := 0; k < 5; k++ {
			n := 0
			if mask>>uint(k)&1 == 1 {
				n = 1 + k%2
			}
			lines = append(lines, geomgen.Skel{Kind: geomgen.KLineString, N: n})
			rings = append(rings, geomgen.Skel{Kind: geomgen.KRing, N: n})
			polys = append(polys, geomgen.Skel{Kind: geomgen.KPolygon, Kids: []geomgen.Skel{{Kind: geomgen.KRing, N: n}}})
			mixed = append(mixed, []geomgen.Skel{{Kind: geomgen.KLineString, N: n}, {Kind: geomgen.KMultiPoint, N: n}, {Kind: geomgen.KPolygon, Kids: []geomgen.Skel{{Kind: geomgen.KRing, N: n}}}}[k%3])
		}
		skels = append(skels,
			geomgen.Skel{Kind: geomgen.KMultiLineString, Kids: lines},
			geomgen.Skel{Kind: geomgen.KPolygon, Kids: rings},
			geomgen.Skel{Kind: geomgen.KMultiPolygon, Kids: polys},
			geomgen.Skel{Kind: geomgen.KCollection, Kids: mixed})
	}
	r.Set("skeletons", len(skels))
	var ngeom, nontrivial int64
	enum.Parallel(len(skels), r.Expired, func(i int) {
		s := skels[i]
		np := s.NPoints()
		run := func(subs []Sub) {
			c := Case{Skel: s, Subs: subs}
			g := build(c)
			atomic.AddInt64(&ngeom, 1)
			hasEmpty := len(subs) > 0 || hasEmptyMember(s)
			if hasEmpty {
				atomic.AddInt64(&nontrivial, 1)
			}
			if sym, det := checkGeom(g); sym != "" {
				r.Violation(fmt.Sprintf("geom|%s|%s", s.Kind, sym), map[string]interface{}{"case": c, "geometry": fmt.Sprintf("%#v", g), "observed": det})
			}
			// memory layout: the same vertices cut from one flat buffer (spare
			// capacity reaching into the next member) and a second evaluation
			if len(subs) <= 1 {
				if sym, det := geomgen.LayoutCheck(g, func(x geom.Geom) string {
					if sy, de := checkGeom(x); sy != "" {
						return sy + ": " + de
					}
					return fmt.Sprint(*x.Bounds(), x.Len())
				}); sym != "" {
					r.Violation(fmt.Sprintf("geom|%s|%s", s.Kind, sym), map[string]interface{}{"case": c, "geometry": fmt.Sprintf("%#v", g), "observed": det})
				}
			}
			if i%97 == 0 && len(subs) == 0 {
				r.Sample(12, fmt.Sprintf("%s -> %#v", s, g))
			}
		}
		run(nil)
		slots := 2 * np
		for a := 0; a < slots; a++ {
			for va := range special {
				run([]Sub{{a, va}})
				if maxSubs >= 2 && slots <= 16 {
					for b := a + 1; b < slots; b++ {
						for vb := range special {
							run([]Sub{{a, va}, {b, vb}})
						}
					}
				}
			}
		}
	})
	if r.Expired() {
		r.Cap("wall budget expired during the geometry sweep")
	}
	r.AddStates(ngeom)
	r.AddTransitions(ngeom * 3)
	r.AddNontrivial(nontrivial)

	// boxes
	var ntuple, overlapping int64
	// two lattices: small integers, and the extended reals {-Inf, -0, 1, +Inf}
	// (a box may be unbounded or sit at infinity; only Min > Max is empty)
	lattices := [][]box{boxes(nb), boxesOver([]float64{math.Inf(-1), math.Copysign(0, -1), 1, math.Inf(1)})}
	r.Set("boxes", len(lattices[0])+len(lattices[1]))
	bs := lattices[0]
	for _, bs := range lattices {
		enum.Parallel(len(bs), nil, func(i int) {
			a := bs[i]
			// unary
			ga := a.geom()
			cp := ga.Copy()
			cp.Min.X -= 1
			if !eqBox(ga, a) {
				r.Violation("box|Copy|aliases", map[string]interface{}{"a": a})
			}
			ga.Extend(nil)
			if !eqBox(ga, a) {
				r.Violation("box|Extend(nil)|changed", map[string]interface{}{"a": a})
			}
			if ga.Empty() != a.empty() {
				r.Violation("box|Empty|wrong", map[string]interface{}{"a": a})
			}
			for _, b := range bs {
				atomic.AddInt64(&ntuple, 1)
				ga, gb := a.geom(), b.geom()
				ga.Extend(gb)
				if !eqBox(ga, join(a, b)) {
					r.Violation(fmt.Sprintf("box|Extend|not-join|emptyarg=%v|emptyrecv=%v", b.empty(), a.empty()), map[string]interface{}{"a": a, "b": b, "got": *ga})
				}
				if !eqBox(gb, b) {
					r.Violation("box|Extend|argument-modified", map[string]interface{}{"a": a, "b": b})
				}
				// idempotent
				ga.Extend(gb)
				if !eqBox(ga, join(a, b)) {
					r.Violation("box|Extend|not-idempotent", map[string]interface{}{"a": a, "b": b})
				}
				// commutative
				hb := b.geom()
				hb.Extend(a.geom())
				if !eqBox(hb, join(a, b)) {
					r.Violation(fmt.Sprintf("box|Extend|not-commutative|emptyarg=%v|emptyrecv=%v", a.empty(), b.empty()), map[string]interface{}{"a": a, "b": b})
				}
				// Overlaps: closed boxes share a point
				share := !a.empty() && !b.empty() && a.X0 <= b.X1 && b.X0 <= a.X1 && a.Y0 <= b.Y1 && b.Y0 <= a.Y1
				if got := a.geom().Overlaps(b.geom()); got != share {
					r.Violation(fmt.Sprintf("box|Overlaps|got=%v", got), map[string]interface{}{"a": a, "b": b})
				}
				// box-box intersection: common rectangle, nil iff no common area (an empty
				// box shares no area with anything)
				{
					ix0, iy0, ix1, iy1 := math.Max(a.X0, b.X0), math.Max(a.Y0, b.Y0), math.Min(a.X1, b.X1), math.Min(a.Y1, b.Y1)
					area := ix1 > ix0 && iy1 > iy0 && !a.empty() && !b.empty()
					if area {
						atomic.AddInt64(&overlapping, 1)
					}
					var res geom.Polygonal
					if p := try(func() { res = a.geom().Intersection(b.geom()) }); p != "" {
						r.Violation("box|Intersection|panic", map[string]interface{}{"a": a, "b": b, "panic": p})
						continue
					}
					isNil := res == nil
					if rb, ok := res.(*geom.Bounds); ok && rb == nil {
						// a nil *Bounds wrapped in the interface: "res == nil" is false for the
						// caller and every method call on it panics
						r.Violation("box|Intersection|typed-nil-pointer-instead-of-nil", map[string]interface{}{"a": a, "b": b, "got": fmt.Sprintf("%#v", res)})
						isNil = true
					}
					if !area {
						if !isNil {
							r.Violation("box|Intersection|non-nil-without-common-area", map[string]interface{}{"a": a, "b": b, "got": fmt.Sprintf("%v", res)})
						}
					} else if isNil {
						r.Violation("box|Intersection|nil-with-common-area", map[string]interface{}{"a": a, "b": b})
					} else {
						rb := res.Bounds()
						if !(rb.Min.X == ix0 && rb.Min.Y == iy0 && rb.Max.X == ix1 && rb.Max.Y == iy1) || math.Abs(res.Area()-(ix1-ix0)*(iy1-iy0)) > 1e-12 {
							r.Violation("box|Intersection|wrong-rectangle", map[string]interface{}{"a": a, "b": b, "got": fmt.Sprintf("%v", res)})
						}
					}
				}
				// associativity on triples
				for _, c := range bs {
					atomic.AddInt64(&ntuple, 1)
					l := a.geom()
					l.Extend(b.geom())
					l.Extend(c.geom())
					bc := b.geom()
					bc.Extend(c.geom())
					rr := a.geom()
					rr.Extend(bc)
					want := join(join(a, b), c)
					if !eqBox(l, want) || !eqBox(rr, want) {
						r.Violation(fmt.Sprintf("box|Extend|not-associative|anyempty=%v", a.empty() || b.empty() || c.empty()), map[string]interface{}{"a": a, "b": b, "c": c})
					}
				}
			}
		})
	}
	r.AddStates(ntuple)
	r.AddTransitions(ntuple * 3)
	r.AddNontrivial(overlapping)
	r.Sample(14, fmt.Sprintf("box pair %v %v", bs[5], bs[42]))
	r.AddEvals(ngeom + ntuple)
	r.Finish()
}

func hasEmptyMember(s geomgen.Skel) bool {
	switch s.Kind {
	case geomgen.KPoint, geomgen.KBounds:
		return false
	case geomgen.KMultiPoint, geomgen.KLineString, geomgen.KRing:
		return s.N == 0
	}
	if len(s.Kids) == 0 {
		return true
	}
	for _, k := range s.Kids {
		if hasEmptyMember(k) {
			return true
		}
	}
	return false
}

func replay(path string) {
	b, err := os.ReadFile(path)
	if err != nil {
		report.Harness("%v", err)
	}
	var f struct {
		Signature string
		Case      struct {
			Case *Case
			A, B *box
		}
	}
	json.Unmarshal(b, &f)
	fmt.Println("signature:", f.Signature)
	if f.Case.Case != nil {
		g := build(*f.Case.Case)
		sym, det := checkGeom(g)
		fmt.Printf("geometry %#v\nresult: %q %s\n", g, sym, det)
		if sym != "" {
			os.Exit(1)
		}
		return
	}
	fmt.Println("box case: re-run the check; the case file holds the operands", string(b))
}
