// C01 — polygon boolean operations implement point-set semantics. Engine E1:
// operand catalogue^2 x translation offsets x receiver/argument type casts x 4
// operations on the real code, against exact even-odd membership of a lattice
// of margin-checked test points and slab-decomposition areas.
package main

import (
	"encoding/json"
	"fmt"
	"math"
	"os"
	"sync/atomic"

	"github.com/ctessum/geom"

	"verif/mc/enum"
	"verif/mc/exact"
	"verif/mc/geomgen"
	"verif/mc/report"
)

const scale = 1000

func box(x0, y0, x1, y1 int64) [][2]int64 {
	return [][2]int64{{x0, y0}, {x1, y0}, {x1, y1}, {x0, y1}}
}

type shp struct {
	Name  string
	Polys [][][][2]int64 // polygons -> rings -> vertices (units)
	IsBox bool
	Milli bool // the vertices are given in 1/1000 units (many-vertex shapes)
}

func (s shp) mul() int64 {
	if s.Milli {
		return 1
	}
	return scale
}

// gon is an n-gon inscribed in the circle of radius r around (cx, cy), all in
// 1/1000 units, rounded to integers (it stays convex for the sizes used).
func gon(n int, cx, cy, r float64) [][2]int64 {
	var o [][2]int64
	for k := 0; k < n; k++ {
		a := 2 * math.Pi * (float64(k) + 0.25) / float64(n)
		o = append(o, [2]int64{int64(math.Round(cx + r*math.Cos(a))), int64(math.Round(cy + r*math.Sin(a)))})
	}
	return o
}

func catalogue(tier string) []shp {
	var out []shp
	iv := [][2]int64{{0, 4}, {2, 6}, {0, 6}}
	if tier == "thorough" {
		iv = [][2]int64{{0, 2}, {0, 4}, {0, 6}, {2, 4}, {2, 6}, {4, 6}}
	}
	for _, x := range iv {
		for _, y := range iv {
			out = append(out, shp{fmt.Sprintf("box[%d,%d]x[%d,%d]", x[0], x[1], y[0], y[1]), [][][][2]int64{{box(x[0], y[0], x[1], y[1])}}, true, false})
		}
	}
	out = append(out,
		shp{"tri1", [][][][2]int64{{{{0, 0}, {6, 0}, {0, 6}}}}, false, false},
		shp{"tri2", [][][][2]int64{{{{0, 0}, {6, 2}, {2, 6}}}}, false, false},
		shp{"L", [][][][2]int64{{{{0, 0}, {6, 0}, {6, 2}, {2, 2}, {2, 6}, {0, 6}}}}, false, false},
		shp{"C", [][][][2]int64{{{{0, 0}, {6, 0}, {6, 2}, {2, 2}, {2, 4}, {6, 4}, {6, 6}, {0, 6}}}}, false, false},
		shp{"box-hole", [][][][2]int64{{box(0, 0, 6, 6), box(2, 2, 4, 4)}}, false, false},
		shp{"box-2holes", [][][][2]int64{{box(0, 0, 8, 6), box(1, 1, 3, 3), box(5, 2, 7, 5)}}, false, false},
		shp{"two-boxes", [][][][2]int64{{box(0, 0, 2, 2)}, {box(4, 4, 6, 6)}}, false, false},
		shp{"box+box-hole", [][][][2]int64{{box(0, 0, 2, 6)}, {box(4, 0, 8, 6), box(5, 1, 7, 3)}}, false, false},
		shp{"island-in-hole", [][][][2]int64{{box(0, 0, 8, 8), box(2, 2, 6, 6)}, {box(3, 3, 5, 5)}}, false, false},
		shp{"pentagon", [][][][2]int64{{{{1, 0}, {5, 0}, {6, 3}, {3, 6}, {0, 3}}}}, false, false},
		// a non-convex (U-shaped) hole: an operand can have all its vertices in
		// the hole's arms while an edge crosses the notch between them
		// many vertices: a 64-gon, and a 100-gon with a 65-gon hole
		shp{Name: "gon64", Polys: [][][][2]int64{{gon(64, 3000, 3000, 2950)}}, Milli: true},
		shp{Name: "gon100-hole65", Polys: [][][][2]int64{{gon(100, 3100, 2900, 3333), gon(65, 3000, 3000, 1777)}}, Milli: true},
		shp{"box-Uhole", [][][][2]int64{{box(0, 0, 8, 8), {{1, 1}, {7, 1}, {7, 7}, {5, 7}, {5, 3}, {3, 3}, {3, 7}, {1, 7}}}}, false, false},
		// a rectangle that contains the other operand at every offset (and, as B,
		// covers it), so that holes and islands lie strictly inside a *Bounds operand
		shp{"box[-9,17]x[-9,17]", [][][][2]int64{{box(-9, -9, 17, 17)}}, true, false},
		// a small member listed before one that is wider on both sides (the extent of
		// the whole is not the extent of its first member widened on one side)
		shp{"small+wide", [][][][2]int64{{box(3, 0, 4, 1)}, {box(0, 2, 7, 3)}}, false, false},
	)
	return out
}

// Case is one replayable operand pair.
type Case struct {
	A, B   int  // catalogue indices
	RevA   bool // reversed winding
	RevB   bool
	DX, DY int64 // translation of B in 1/1000 units
	Affine int   // 0: none; k>0: both operands are mapped by the k-th affine map (non-representable coefficients)
	Close  int   `json:",omitempty"` // ring spelling of both operands: 0 all unclosed, 1 all closed, 2 first ring of each polygon closed and the others not, 3 the reverse, 4 unclosed with the rings of each polygon in the opposite order (holes first)
	Tier   string
}

func region(s shp, rev bool, dx, dy int64) exact.Region {
	var r exact.Region
	for _, pg := range s.Polys {
		for _, ring := range pg {
			var o []exact.Pt
			for _, v := range ring {
				o = append(o, exact.Pt{X: v[0]*s.mul() + dx, Y: v[1]*s.mul() + dy})
			}
			if rev {
				for i, j := 0, len(o)-1; i < j; i, j = i+1, j-1 {
					o[i], o[j] = o[j], o[i]
				}
			}
			r = append(r, o)
		}
	}
	return r
}

var affines = [][6]float64{
	{0.8660254037844387, -0.5, 0.5, 0.8660254037844387, 0.1, -0.3},                          // rotation by 30 degrees
	{1.7, 0.3333333333333333, -0.45, 0.9, 1234.5678, -77.7},                                 // shear + scale
	{-0.7071067811865476, 0.7071067811865476, 0.7071067811865476, 0.7071067811865476, 0, 0}, // reflection + rotation (negative determinant)
	{math.Ldexp(1, -20), 0, 0, math.Ldexp(1, -20), 0, 0},                                    // exact scaling by 2^-20: areas of about 1e-11
	{math.Ldexp(1, 30), 0, 0, math.Ldexp(1, 30), 0, 0},                                      // exact scaling by 2^30: areas of about 1e19
	{math.Ldexp(1, -10), 0, 0, math.Ldexp(1, -10), 4194304, 6291456},                        // small and far away: shapes of 5e-3 around (2^22, 3*2^21), nine orders of magnitude below their coordinates
}

// relTol is the relative area tolerance of a case: 1e-9, and 1e-5 under the
// "small and far away" map, where every vertex is rounded to 2^-30 (1e-9), i.e.
// to 2e-7 of the size of the shape.
func relTol(k int) float64 {
	if k == 6 {
		return 1e-5
	}
	return 1e-9
}

func affPt(k int, x, y float64) (float64, float64) {
	if k == 0 {
		return x, y
	}
	a := affines[k-1]
	return a[0]*x + a[1]*y + a[4], a[2]*x + a[3]*y + a[5]
}

func affDet(k int) float64 {
	if k == 0 {
		return 1
	}
	a := affines[k-1]
	return math.Abs(a[0]*a[3] - a[1]*a[2])
}

func toGeomA(s shp, rev bool, dx, dy int64, k int) geom.MultiPolygon {
	mp := toGeom(s, rev, dx, dy)
	if k == 0 {
		return mp
	}
	for _, pg := range mp {
		for _, ring := range pg {
			for i := range ring {
				ring[i].X, ring[i].Y = affPt(k, ring[i].X, ring[i].Y)
			}
		}
	}
	return mp
}

func toGeom(s shp, rev bool, dx, dy int64) geom.MultiPolygon {
	var mp geom.MultiPolygon
	for _, pg := range s.Polys {
		var g geom.Polygon
		for _, ring := range pg {
			var o geom.Path
			for _, v := range ring {
				o = append(o, geom.Point{X: float64(v[0]*s.mul()+dx) / scale, Y: float64(v[1]*s.mul()+dy) / scale})
			}
			if rev {
				for i, j := 0, len(o)-1; i < j; i, j = i+1, j-1 {
					o[i], o[j] = o[j], o[i]
				}
			}
			g = append(g, o)
		}
		mp = append(mp, g)
	}
	return mp
}

// casts returns the typed variants of an operand.
func casts(s shp, mp geom.MultiPolygon) map[string]geom.Polygonal {
	m := map[string]geom.Polygonal{"MultiPolygon": mp}
	if len(mp) == 1 {
		m["Polygon"] = mp[0]
	}
	if s.IsBox {
		b := mp[0].Bounds()
		m["Bounds"] = b
	}
	return m
}

func try(f func()) (p string) {
	defer func() {
		if r := recover(); r != nil {
			p = fmt.Sprint(r)
		}
	}()
	f()
	return ""
}

var opNames = []string{"Intersection", "Union", "Difference", "XOr"}

func apply(op int, a, b geom.Polygonal) geom.Polygonal {
	switch op {
	case 0:
		return a.Intersection(b)
	case 1:
		return a.Union(b)
	case 2:
		return a.Difference(b)
	}
	return a.XOr(b)
}

func isNil(p geom.Polygonal) bool {
	if p == nil {
		return true
	}
	switch t := p.(type) {
	case geom.Polygon:
		return t == nil
	case geom.MultiPolygon:
		return t == nil
	case *geom.Bounds:
		return t == nil
	}
	return false
}

func resultRegion(p geom.Polygonal) exact.FRegion {
	var r exact.FRegion
	if isNil(p) {
		return r
	}
	for _, pg := range p.Polygons() {
		for _, ring := range pg {
			var o []exact.FPt
			for _, v := range ring {
				o = append(o, exact.FPt{X: v.X, Y: v.Y})
			}
			r = append(r, o)
		}
	}
	return r
}

var testPts []exact.Pt

func init() {
	for x := int64(-8000); x <= 16000; x += 500 {
		for y := int64(-8000); y <= 16000; y += 500 {
			testPts = append(testPts, exact.Pt{X: x + 123, Y: y + 217})
		}
	}
}

var rep *report.Run
var nOps, nNontrivial, nSkipped int64

func runCase(c Case, cat []shp) {
	sa, sb := cat[c.A], cat[c.B]
	ra, rb := region(sa, c.RevA, 0, 0), region(sb, c.RevB, c.DX, c.DY)
	if !exact.GeneralPosition(ra, rb) {
		atomic.AddInt64(&nSkipped, 1)
		return
	}
	fa, fb := exact.ToF(ra, scale), exact.ToF(rb, scale)
	and, or, diff, xor := exact.Areas(fa, fb)
	want := []float64{and, or, diff, xor}
	for i := range want {
		want[i] *= affDet(c.Affine)
	}
	areaA, areaB := exact.Area(fa), exact.Area(fb)
	unit := math.Abs(affDet(c.Affine)) // the area of a unit square under the map: all area tolerances are relative to it
	// configuration class
	class := "crossing"
	bbDisjoint := func() bool {
		ba, bb := toGeomA(sa, false, 0, 0, c.Affine).Bounds(), toGeomA(sb, false, c.DX, c.DY, c.Affine).Bounds()
		return ba.Max.X < bb.Min.X || bb.Max.X < ba.Min.X || ba.Max.Y < bb.Min.Y || bb.Max.Y < ba.Min.Y
	}()
	switch {
	case bbDisjoint:
		class = "bbox-disjoint"
	case and < 1e-12:
		class = "disjoint"
	case math.Abs(and-areaA) < 1e-9 || math.Abs(and-areaB) < 1e-9:
		class = "nested"
	}
	if class == "crossing" || class == "nested" {
		atomic.AddInt64(&nNontrivial, 1)
	}
	// test points with a clear margin from every input edge, with reference membership
	type tp struct {
		p        exact.FPt
		inA, inB bool
	}
	var pts []tp
	for _, p := range testPts {
		if !exact.Margin(ra, p, 50) || !exact.Margin(rb, p, 50) {
			continue
		}
		ia, _ := exact.Classify(ra, p)
		ib, _ := exact.Classify(rb, p)
		qx, qy := affPt(c.Affine, float64(p.X)/scale, float64(p.Y)/scale)
		pts = append(pts, tp{exact.FPt{X: qx, Y: qy}, ia, ib})
	}
	ga, gb := toGeomA(sa, c.RevA, 0, 0, c.Affine), toGeomA(sb, c.RevB, c.DX, c.DY, c.Affine)
	if c.Close == 4 {
		// the rings of every polygon in the opposite order (holes before their shell)
		for _, mp := range []geom.MultiPolygon{ga, gb} {
			for _, pg := range mp {
				for i, j := 0, len(pg)-1; i < j; i, j = i+1, j-1 {
					pg[i], pg[j] = pg[j], pg[i]
				}
			}
		}
	} else if c.Close > 0 {
		for _, mp := range []geom.MultiPolygon{ga, gb} {
			for _, pg := range mp {
				for ri := range pg {
					if c.Close == 1 || (c.Close == 2) == (ri == 0) {
						pg[ri] = append(pg[ri], pg[ri][0])
					}
				}
			}
		}
	}
	ca, cb := casts(sa, ga), casts(sb, gb)
	if c.Affine > 0 {
		// a mapped box is no longer a *Bounds
		delete(ca, "Bounds")
		delete(cb, "Bounds")
	}
	_ = affDet
	// An edge whose end points differ in x by a few ulps (an exactly vertical
	// edge after rounding of the mapped coordinates) makes the external sweep
	// (github.com/ctessum/polyclip-go) go wrong whatever the operation; such
	// cases form one class of their own (see known_findings.json).
	nearVertical := false
	for _, mp := range []geom.MultiPolygon{ga, gb} {
		for _, pg := range mp {
			for _, ring := range pg {
				for i := range ring {
					p, q := ring[i], ring[(i+1)%len(ring)]
					if dx, dy := math.Abs(q.X-p.X), math.Abs(q.Y-p.Y); dx != 0 && dx < 1e-12*dy {
						nearVertical = true
					}
				}
			}
		}
	}
	for ta, a := range ca {
		for tb, b := range cb {
			for op := 0; op < 4; op++ {
				atomic.AddInt64(&nOps, 1)
				var res geom.Polygonal
				sig := func(sym string) string {
					if nearVertical && sym != "panic" {
						return "external:polyclip-go|operand-edge-vertical-up-to-rounding|wrong-result"
					}
					return fmt.Sprintf("%s|%s,%s|%s|%s", opNames[op], ta, tb, class, sym)
				}
				det := func(extra string) map[string]interface{} {
					return map[string]interface{}{"case": c, "a": fmt.Sprintf("%s %v", sa.Name, a), "b": fmt.Sprintf("%s %v", sb.Name, b), "result": fmt.Sprintf("%v", res), "true_area": want[op], "observed": extra}
				}
				if p := try(func() { res = apply(op, a, b) }); p != "" {
					rep.Violation(sig("panic"), det(p))
					continue
				}
				rr := resultRegion(res)
				if len(rr) == 0 {
					if want[op] > relTol(c.Affine)*unit {
						rep.Violation(sig("empty-result-but-true-area-positive"), det(""))
					}
					continue
				}
				if ta != "Bounds" {
					closed := true
					for _, ring := range rr {
						if len(ring) == 0 || ring[0] != ring[len(ring)-1] {
							closed = false
						}
					}
					if !closed {
						rep.Violation(sig("ring-not-closed"), det(""))
						continue
					}
				}
				got := exact.Area(rr)
				if math.Abs(got-want[op]) > relTol(c.Affine)*math.Max(unit, want[op]) {
					rep.Violation(sig("area-differs"), det(fmt.Sprintf("region area of the result %.12g", got)))
					continue
				}
				bad := ""
				for _, t := range pts {
					var w bool
					switch op {
					case 0:
						w = t.inA && t.inB
					case 1:
						w = t.inA || t.inB
					case 2:
						w = t.inA && !t.inB
					default:
						w = t.inA != t.inB
					}
					if exact.InsideF(rr, t.p) != w {
						bad = fmt.Sprintf("point %v: in A %v, in B %v, in result %v", t.p, t.inA, t.inB, !w)
						break
					}
				}
				if bad != "" {
					rep.Violation(sig("membership-differs"), det(bad))
				}
			}
			// memory layout: both operands with their rings cut from one flat
			// vertex buffer each (spare capacity reaching into the next ring):
			// same result areas, buffers not written
			if c.Affine == 0 && ta != "Bounds" && tb != "Bounds" && (c.A+c.B+int(c.DX/1000)+int(c.DY/1000))%3 == 0 {
				fa2, wa := geomgen.FlatBacked(a.(geom.Geom))
				fb2, wb := geomgen.FlatBacked(b.(geom.Geom))
				var kept [4]geom.Polygonal
				var keptArea [4]float64
				defer func() {
					// results handed out earlier must survive the later calls
					for op := 0; op < 4; op++ {
						if kept[op] != nil && !isNil(kept[op]) {
							if again := exact.Area(resultRegion(kept[op])); again != keptArea[op] {
								rep.Violation(fmt.Sprintf("%s|%s,%s|%s|result-changed-by-later-operations", opNames[op], ta, tb, class), map[string]interface{}{"case": c, "area_when_returned": keptArea[op], "area_after_later_calls": again})
							}
						}
					}
				}()
				for op := 0; op < 4; op++ {
					atomic.AddInt64(&nOps, 1)
					var res geom.Polygonal
					sig := func(sym string) string {
						return fmt.Sprintf("%s|%s,%s|%s|flat-buffer-operands|%s", opNames[op], ta, tb, class, sym)
					}
					det := func(extra string) map[string]interface{} {
						return map[string]interface{}{"case": c, "a": fmt.Sprintf("%s %v", sa.Name, a), "b": fmt.Sprintf("%s %v", sb.Name, b), "result": fmt.Sprintf("%v", res), "true_area": want[op], "observed": extra}
					}
					if p := try(func() { res = apply(op, fa2.(geom.Polygonal), fb2.(geom.Polygonal)) }); p != "" {
						rep.Violation(sig("panic"), det(p))
						break
					}
					if w := wa() + wb(); w != "" {
						rep.Violation(sig("caller-buffer-written"), det(w))
						break
					}
					got := exact.Area(resultRegion(res))
					kept[op], keptArea[op] = res, got
					if math.Abs(got-want[op]) > relTol(c.Affine)*math.Max(unit, want[op]) {
						rep.Violation(sig("area-differs"), det(fmt.Sprintf("region area of the result %.12g", got)))
					}
				}
			}
		}
	}
}

func main() {
	tier := "quick"
	if len(os.Args) > 1 {
		tier = os.Args[1]
	}
	if tier == "replay" {
		b, err := os.ReadFile(os.Args[2])
		if err != nil {
			report.Harness("%v", err)
		}
		var f struct{ Case struct{ Case Case } }
		json.Unmarshal(b, &f)
		rep = report.New("C01", "quick", "model_checking")
		c := f.Case.Case
		runCase(c, catalogue(c.Tier))
		fmt.Printf("case %+v: %d distinct violation signatures\n", c, rep.NViolationSigs())
		if rep.NViolationSigs() > 0 {
			os.Exit(1)
		}
		return
	}
	rep = report.New("C01", tier, "model_checking")
	rep.Rule = "E1: operand catalogue (9 (36) axis-aligned boxes and one box large enough to contain every other operand, 2 triangles, L, C, pentagon, box with 1 and 2 holes, two disjoint boxes, box + box-with-hole, island inside a hole, box with a U-shaped hole, a 64-gon, a 100-gon with a 65-gon hole) in both windings for A and B (operands with holes also with closed rings and with closed and unclosed rings mixed in one polygon, and with the holes listed before their shell), B translated by every vector of a 4x4 (8x8) odd-integer grid + (0.37,0.41), every receiver/argument cast {Polygon, MultiPolygon, *Bounds} x {Intersection, Union, Difference, XOr}; a third of the pairs again with both operands cut from flat vertex buffers (same areas, buffers not written, earlier results intact after later operations); the catalogue pairs again under 3 affine maps with non-representable coefficients (rotation by 30 deg, shear+scale, reflection) 2 exact scalings (2^-20, 2^30) and one small-and-far map (scaled by 2^-10 and moved to (2^22, 3*2^21): shapes nine orders of magnitude below their coordinates; area tolerance 1e-5 there) (areas scale by |det|, references on the integer pre-images); pairs not in general position (exact integer test) are skipped and counted. Oracle: even-odd membership of ~2400 lattice points with an exactly verified 0.05 margin must equal the boolean combination; region area of the result (slab decomposition) must equal the slab-decomposition area of the true region (rel 1e-9); rings closed for Polygon/MultiPolygon receivers; empty result only if the true area is 0. Non-trivial = operand pairs that cross or nest."
	cat := catalogue(tier)
	offs := []int64{-7, -3, 1, 5}
	if tier == "thorough" {
		offs = []int64{-7, -5, -3, -1, 1, 3, 5, 7}
	}
	var cases []Case
	for a := range cat {
		for b := range cat {
			for _, ra := range []bool{false, true} {
				for _, rb := range []bool{false, true} {
					if tier == "quick" && ra && rb && cat[a].IsBox && cat[b].IsBox {
						continue
					}
					for _, dx := range offs {
						for _, dy := range offs {
							cases = append(cases, Case{A: a, B: b, RevA: ra, RevB: rb, DX: dx*scale + 370, DY: dy*scale + 410, Tier: tier})
							if (len(cat[a].Polys[0]) > 1 || len(cat[b].Polys[0]) > 1 || len(cat[a].Polys) > 1 && len(cat[a].Polys[1]) > 1) && (tier == "thorough" || (dx+dy+int64(a))%3 == 0) {
								// operands with holes: the closed and the two mixed ring spellings
								cl := 1 + (int(dx+dy)+a+b)%4
								cases = append(cases, Case{A: a, B: b, RevA: ra, RevB: rb, DX: dx*scale + 370, DY: dy*scale + 410, Tier: tier, Close: cl})
							}
						}
					}
				}
			}
		}
	}
	// the same operands under affine maps with non-representable coefficients
	// (rotation, shear, reflection): edges are no longer axis-aligned, areas scale
	// by |det|, membership is invariant; references are computed on the integer
	// pre-images
	for a := range cat {
		for b := range cat {
			if tier == "quick" && (cat[a].IsBox && a%4 != 0 || cat[b].IsBox && b%4 != 1) {
				continue
			}
			for k := 1; k <= len(affines); k++ {
				for oi, dx := range offs {
					dy := offs[(oi+k)%len(offs)]
					cases = append(cases, Case{A: a, B: b, RevB: (a+b)%2 == 1, DX: dx*scale + 370, DY: dy*scale + 410, Affine: k, Tier: tier})
					if tier == "thorough" {
						cases = append(cases, Case{A: a, B: b, RevA: true, RevB: (a+b)%2 == 0, DX: dy*scale + 370, DY: dx*scale + 410, Affine: k, Tier: tier})
					}
				}
			}
		}
	}
	rep.Set("operand_pairs", len(cases))
	enum.Parallel(len(cases), rep.Expired, func(i int) {
		runCase(cases[i], cat)
		if i%4001 == 0 {
			c := cases[i]
			rep.Sample(10, fmt.Sprintf("A=%s rev=%v, B=%s rev=%v translated by (%g,%g)", cat[c.A].Name, c.RevA, cat[c.B].Name, c.RevB, float64(c.DX)/scale, float64(c.DY)/scale))
		}
	})
	if rep.Expired() {
		rep.Cap("wall budget expired")
	}
	rep.AddStates(int64(len(cases)))
	rep.AddTransitions(nOps)
	rep.AddEvals(nOps)
	rep.AddNontrivial(nNontrivial)
	rep.AddSkipped(nSkipped)
	rep.Finish()
}
