// C10 — reprojection is pointwise, history-independent and structure
// preserving. Space A (engine E2, stateless): every sequence of Build / Call
// operations to a depth over a set of spatial references parsed once per
// sequence; every call must equal the value of a freshly built transformer
// called once. Space B (engine E1): structure trees x transformers that fail on
// the k-th call.
package main

import (
	"errors"
	"fmt"
	"math"
	"os"
	"strings"
	"sync/atomic"

	"github.com/ctessum/geom"
	"github.com/ctessum/geom/proj"

	"verif/mc/enum"
	"verif/mc/geomgen"
	"verif/mc/report"
)

type srDef struct {
	name string
	def  string
	pts  [][2]float64 // two valid input points in the system's own coordinates (some: a third, outside the domain of some destination)
}

var srs = []srDef{
	{"tmerc/OSGB36(7p)", "+proj=tmerc +lat_0=49 +lon_0=-2 +k=0.9996012717 +x_0=400000 +y_0=-100000 +datum=osgb36 +units=m", [][2]float64{{400000, 100000}, {651409.9, 313177.27}}},
	{"lcc/potsdam(3p)", "+proj=lcc +lat_1=49 +lat_2=46 +lat_0=47.5 +lon_0=13.333333 +x_0=400000 +y_0=400000 +datum=potsdam", [][2]float64{{400000, 400000}, {250000, 520000}}},
	{"EPSG:4326", "EPSG:4326", [][2]float64{{-1.5, 52}, {13.3, 47.5}, {0, 90}}},
	{"EPSG:3857", "EPSG:3857", [][2]float64{{-166979.2, 6800125.4}, {1480554.5, 6024072.1}, {0, 1e300}}},
	{"longlat+axis=neu", "+proj=longlat +datum=WGS84 +axis=neu", [][2]float64{{52, -1.5}, {47.5, 13.3}}},
	{"longlat+axis=wsu/bessel7p", "+proj=longlat +ellps=bessel +towgs84=577.326,90.129,463.919,5.137,1.474,5.297,2.4232 +axis=wsu", [][2]float64{{1.5, -52}, {-13.3, -47.5}}},
	{"utm33/ED50-like(3p)", "+proj=utm +zone=33 +ellps=intl +towgs84=-87,-98,-121", [][2]float64{{500000, 5761038}, {414639.5, 4428236.1}}},
	{"krovak/s_jtsk", "+proj=krovak +datum=s_jtsk", [][2]float64{{-800000, -1050000}, {-500000, -1100000}}},
	{"utm33/GRS80", "+proj=utm +zone=33 +ellps=GRS80 +towgs84=0,0,0", [][2]float64{{500000, 5761038}, {414639.5, 4428236.1}}},
	{"utm32/WGS84", "+proj=utm +zone=32 +datum=WGS84", [][2]float64{{500000, 5761038}, {614639.5, 4428236.1}}},
	// pairs that differ only by an omitted parameter (the projection factories fill in defaults on first use)
	{"merc/lon_0=10", "+proj=merc +lon_0=10 +datum=WGS84", [][2]float64{{400000, 6800000}, {-1200000, 5000000}, {1e300, 0}}},
	{"merc/lon_0-omitted", "+proj=merc +datum=WGS84", [][2]float64{{400000, 6800000}, {-1200000, 5000000}}},
	{"tmerc/x_0=500000", "+proj=tmerc +lon_0=9 +k=0.9996 +x_0=500000 +datum=WGS84", [][2]float64{{500000, 5761038}, {414639.5, 4428236.1}}},
	{"tmerc/x_0-omitted", "+proj=tmerc +lon_0=9 +k=0.9996 +datum=WGS84", [][2]float64{{0, 5761038}, {-85360.5, 4428236.1}}},
	// an authalic sphere (+R_A): its radius is derived from the ellipsoid when the definition is parsed
	{"merc/R_A", "+proj=merc +ellps=WGS84 +R_A +lon_0=0", [][2]float64{{400000, 6800000}, {-1200000, 5000000}, {1e300, 0}}},
	// two geographic systems on shifted datums (the pair goes through WGS84 in two legs); the third point has
	// a latitude of 95 degrees and fails in the first leg
	{"longlat/bessel7p", "+proj=longlat +ellps=bessel +towgs84=577.326,90.129,463.919,5.137,1.474,5.297,2.4232", [][2]float64{{10, 50}, {13.3, 47.5}, {10, 95}}},
	{"longlat/intl3p", "+proj=longlat +ellps=intl +towgs84=-87,-98,-121", [][2]float64{{10, 50}, {13.3, 47.5}, {10, 95}}},
	// a datum given by a grid file (not supported: every transformation into or out of it fails, after the
	// geocentric first leg) and a shifted-datum Mercator that shares the other references with it
	{"longlat/clrk66+nadgrids", "+proj=longlat +ellps=clrk66 +nadgrids=@conus", [][2]float64{{-100, 40}, {-90, 35}}},
	{"merc/bessel7p", "+proj=merc +lon_0=0 +ellps=bessel +towgs84=577.326,90.129,463.919,5.137,1.474,5.297,2.4232", [][2]float64{{400000, 6800000}, {-1200000, 5000000}}},
	// projection methods the package does not implement, under names that contain the names of methods it does
	// implement (every transformation into or out of them is expected to fail, the same way every time)
	{"wkt/Transverse_Mercator_South_Orientated", `PROJCS["Lo19",GEOGCS["g",DATUM["Neutral_Datum_One",SPHEROID["WGS 84",6378137,298.257223563],TOWGS84[0,0,0]],PRIMEM["Greenwich",0],UNIT["degree",0.0174532925199433]],PROJECTION["Transverse_Mercator_South_Orientated"],PARAMETER["latitude_of_origin",0],PARAMETER["central_meridian",19],PARAMETER["scale_factor",1],PARAMETER["false_easting",0],PARAMETER["false_northing",0],UNIT["metre",1]]`, [][2]float64{{50000, 3700000}, {-20000, 3300000}}},
	{"wkt/Hotine_Oblique_Mercator", `PROJCS["rso",GEOGCS["g",DATUM["Neutral_Datum_One",SPHEROID["WGS 84",6378137,298.257223563],TOWGS84[0,0,0]],PRIMEM["Greenwich",0],UNIT["degree",0.0174532925199433]],PROJECTION["Hotine_Oblique_Mercator"],PARAMETER["latitude_of_center",4],PARAMETER["longitude_of_center",102.25],PARAMETER["azimuth",323.0257905],PARAMETER["scale_factor",0.99984],PARAMETER["false_easting",804671],PARAMETER["false_northing",0],UNIT["metre",1]]`, [][2]float64{{400000, 300000}, {500000, 600000}}},
	{"proj4/tmerc_so", "+proj=transverse_mercator_south_orientated +lon_0=19 +k=1 +datum=WGS84", [][2]float64{{50000, 3700000}, {-20000, 3300000}}},
	// conics and a transverse Mercator without +lat_0 (and +k): whatever the package makes of the omission
	// (a default, or NaN), it must make the same of it on every call
	{"lcc/lat_0-omitted", "+proj=lcc +lat_1=49 +lat_2=46 +lon_0=13.333333 +x_0=400000 +y_0=400000 +datum=WGS84", [][2]float64{{400000, 400000}, {250000, 520000}}},
	{"aea/lat_0-omitted", "+proj=aea +lat_1=50 +lat_2=58.5 +lon_0=-126 +x_0=1000000 +y_0=0 +datum=WGS84", [][2]float64{{1000000, 5500000}, {1200000, 5900000}}},
	{"eqdc/lat_0-omitted", "+proj=eqdc +lat_1=20 +lat_2=60 +lon_0=-96 +x_0=0 +y_0=0 +datum=WGS84", [][2]float64{{100000, 4400000}, {-300000, 3900000}}},
	{"tmerc/lat_0+k-omitted", "+proj=tmerc +lon_0=9 +x_0=500000 +y_0=0 +datum=WGS84", [][2]float64{{500000, 5761038}, {414639.5, 4428236.1}}},
}

// expectFail: every transformation that involves the reference is expected to fail.
func expectFail(i int) bool {
	return strings.HasSuffix(srs[i].name, "-omitted") || strings.Contains(srs[i].def, "+nadgrids=@conus") || strings.HasPrefix(srs[i].name, "wkt/Transverse_Mercator_South") || strings.HasPrefix(srs[i].name, "wkt/Hotine") || srs[i].name == "proj4/tmerc_so"
}

func try(f func()) (p string) {
	defer func() {
		if r := recover(); r != nil {
			p = fmt.Sprint(r)
		}
	}()
	f()
	return ""
}

type val struct {
	x, y float64
	err  bool
	pan  string
	nilT bool
}

func (a val) same(b val) bool {
	if a.pan != "" || b.pan != "" {
		return a.pan == b.pan
	}
	if a.err != b.err || a.nilT != b.nilT {
		return false
	}
	if a.err {
		return true
	}
	eq := func(p, q float64) bool {
		// a transformer is a pure function of its input: bit-identical results are demanded
		return p == q || (math.IsNaN(p) && math.IsNaN(q))
	}
	return eq(a.x, b.x) && eq(a.y, b.y)
}

func (a val) String() string {
	switch {
	case a.pan != "":
		return "panic: " + a.pan
	case a.nilT:
		return "nil transformer"
	case a.err:
		return "error"
	}
	return fmt.Sprintf("(%.6f, %.6f)", a.x, a.y)
}

func call(t proj.Transformer, p [2]float64) val {
	if t == nil {
		return val{x: p[0], y: p[1], nilT: true}
	}
	var v val
	var err error
	if pn := try(func() { v.x, v.y, err = t(p[0], p[1]) }); pn != "" {
		return val{pan: pn}
	}
	v.err = err != nil
	return v
}

// fresh computes the reference: freshly parsed definitions, a freshly built
// transformer, called once.
func fresh(i, j, k int) val {
	var t proj.Transformer
	var err error
	if pn := try(func() {
		a, e := proj.Parse(srs[i].def)
		if e != nil {
			err = e
			return
		}
		b, e := proj.Parse(srs[j].def)
		if e != nil {
			err = e
			return
		}
		t, err = a.NewTransform(b)
	}); pn != "" {
		return val{pan: pn}
	}
	if err != nil {
		return val{err: true}
	}
	return call(t, srs[i].pts[k])
}

type op struct {
	build   bool
	i, j    int // build: source, destination
	slot, k int // call: transformer slot, point index
}

func (o op) String() string {
	if o.build {
		return fmt.Sprintf("t := [%s].NewTransform([%s])", srs[o.i].name, srs[o.j].name)
	}
	return fmt.Sprintf("t%d(point %d)", o.slot, o.k)
}

func main() {
	tier := "quick"
	if len(os.Args) > 1 {
		tier = os.Args[1]
	}
	if tier == "replay" {
		b, _ := os.ReadFile(os.Args[2])
		fmt.Printf("%s\nThe case lists the operation sequence; spatial references are parsed once at its start.\n", b)
		return
	}
	rep := report.New("C10", tier, "model_checking")
	rep.Rule = "E2 (stateless, no dedup: closure-captured state cannot be fingerprinted): ALL sequences of up to 4 (thorough 5) operations Build(i,j) / Call(slot, point) over two sets of 5 (6) spatial references parsed once per sequence (set A: 7-parameter tmerc/OSGB36, 3-parameter lcc/potsdam, the registered EPSG:4326 (and EPSG:3857), long/lat with +axis=neu and with +axis=wsu on a 7-parameter datum; set B: three UTM references of which two share a zone on different ellipsoids/datums, EPSG:4326, krovak; set C: Mercator and transverse Mercator pairs that differ only by an omitted +lon_0 / +x_0, EPSG:4326); set D: EPSG:4326, EPSG:3857, a Mercator and a Mercator on the authalic sphere (+R_A) with a third, out-of-domain point each - the pole fails towards Mercator, so sequences contain failing calls, repeated failing calls and calls after a failure); set E: two geographic systems on shifted datums and EPSG:4326 with a latitude of 95 degrees as third point (it fails in the first leg of the WGS84 hop); set F: EPSG:4326, a geographic system whose datum is a grid file (+nadgrids=@conus on Clarke 1866: every call fails after the geocentric leg) and a 7-parameter Bessel Mercator; set G: EPSG:4326 and three references whose projection method is not implemented but whose name contains implemented ones (Transverse_Mercator_South_Orientated, Hotine_Oblique_Mercator): they must fail the same way every time; set H: EPSG:4326 and three conics and a transverse Mercator without +lat_0 (+k); results (error or coordinates) must be bit-identical, two (set D: three) points per reference; every call must return what a freshly built transformer from freshly parsed definitions returns when called once; the reference values are recomputed after the sweep to detect changes of the registered globals. E1: structure trees of all eight types (vertices on a parabola, so that rings have area; boxes also inverted, i.e. empty with finite corners; plus members of 1025, 4098 and 5003 (thorough: 16385, 65539) vertices in every flat and nested position, failing call k in {1, 2, n/4+1, n/2, n-1, n} there) x transformers {nil, affine, orientation-reversing affine, fail on the k-th call for every k <= Len}: same type and nesting (*Bounds -> 4-vertex polygon), i-th vertex = t(i-th vertex), input unchanged, error returned, no panic; the same with the input cut from one flat vertex buffer (same output, buffer not written, twice), and the output shares no storage with the input. Non-trivial = sequences that call some transformer at least twice or interleave two transformers."
	// (set, depth) pairs: every sequence up to the depth is enumerated over each set
	type plan struct {
		use   []int
		depth int
		npts  int // points per reference (3: incl. the out-of-domain point; the pole fails towards Mercator)
	}
	plans := []plan{{[]int{0, 1, 2, 4, 5}, 4, 2}, {[]int{6, 8, 9, 2, 7}, 4, 2}, {[]int{10, 11, 12, 13, 2}, 4, 2}, {[]int{2, 3, 10, 14}, 4, 3}, {[]int{15, 16, 2}, 4, 3}, {[]int{2, 17, 18}, 4, 2}, {[]int{2, 19, 20, 21}, 4, 2}, {[]int{2, 22, 23, 24, 25}, 4, 2}}
	if tier == "thorough" {
		plans = []plan{
			{[]int{0, 1, 2, 3, 4, 5}, 4, 2}, {[]int{6, 8, 9, 2, 7, 3}, 4, 2},
			{[]int{10, 11, 12, 13, 2, 3}, 4, 2},
			{[]int{0, 1, 2, 5}, 5, 2}, {[]int{6, 8, 9, 2}, 5, 2}, {[]int{0, 6, 3, 4}, 5, 2}, {[]int{1, 7, 8, 5}, 5, 2}, {[]int{10, 11, 12, 13}, 5, 2},
			{[]int{2, 3, 10, 14}, 5, 3}, {[]int{15, 16, 2}, 5, 3}, {[]int{2, 17, 18, 1}, 5, 2}, {[]int{2, 19, 20, 21, 3}, 4, 2}, {[]int{2, 22, 23, 24, 25}, 5, 2},
		}
	}
	ref := map[[3]int]val{}
	var nseq, ncalls, nontrivial int64
	for _, pl := range plans {
		use, depth, npts := pl.use, pl.depth, pl.npts
		// reference values
		for _, i := range use {
			for _, j := range use {
				for k := 0; k < npts; k++ {
					key := [3]int{i, j, k}
					if _, ok := ref[key]; ok {
						continue
					}
					v := fresh(i, j, k)
					ref[key] = v
					if v.pan != "" {
						rep.Violation("fresh-transformer|panic", map[string]interface{}{"from": srs[key[0]].name, "to": srs[key[1]].name, "point": srs[key[0]].pts[key[2]], "panic": v.pan})
					} else if v.err && key[0] != key[1] && k < 2 && !expectFail(key[0]) && !expectFail(key[1]) {
						// (grid files and unknown projection methods: those calls are meant to fail)
						rep.Violation("fresh-transformer|error", map[string]interface{}{"from": srs[key[0]].def, "to": srs[key[1]].def, "point": srs[key[0]].pts[key[2]]})
					}
				}
			}
		}
		// enumerate sequences; the first operation is always a Build
		var builds []op
		for _, i := range use {
			for _, j := range use {
				builds = append(builds, op{build: true, i: i, j: j})
			}
		}
		// sequential on purpose: the registered references are shared process-wide
		for bi := range builds {
			if rep.Expired() {
				break
			}
			var rec func(seq []op, nbuilt int)
			rec = func(seq []op, nbuilt int) {
				if len(seq) > 0 && !seq[len(seq)-1].build || len(seq) == depth {
					// execute sequences that end with a call (every prefix ending in a
					// call is itself enumerated), and all of maximal length
					execute(rep, seq, ref, &ncalls, &nontrivial)
					atomic.AddInt64(&nseq, 1)
				}
				if len(seq) == depth {
					return
				}
				for _, b := range builds {
					rec(append(append([]op{}, seq...), b), nbuilt+1)
				}
				for s := 0; s < nbuilt; s++ {
					for k := 0; k < npts; k++ {
						rec(append(append([]op{}, seq...), op{slot: s, k: k}), nbuilt)
					}
				}
			}
			rec([]op{builds[bi]}, 1)
		}
	}
	// the registered globals must still denote the same transformations
	for key, v := range ref {
		if w := fresh(key[0], key[1], key[2]); !v.same(w) {
			rep.Violation("fresh-transformer|changed-after-history", map[string]interface{}{"from": srs[key[0]].name, "to": srs[key[1]].name, "before": v.String(), "after": w.String()})
		}
	}
	rep.Set("sequences", nseq)
	rep.Set("transformer_calls", ncalls)

	// ---- Space B: Geom.Transform
	cfg := geomgen.Config{MaxMembers: 2, Lens: []int{0, 1, 2, 3}, FlatMax: 3, PolyRings: 2, Depth: 2, GCMembers: 2, Bounds: true}
	if tier == "thorough" {
		cfg = geomgen.Config{MaxMembers: 3, Lens: []int{0, 1, 2, 3}, FlatMax: 3, PolyRings: 2, Depth: 2, GCMembers: 3, Bounds: true}
	}
	skels := geomgen.Simple(cfg)
	small := geomgen.Simple(geomgen.Config{MaxMembers: 2, Lens: []int{0, 1}, FlatMax: 1, PolyRings: 1, Bounds: true})
	seen := map[string]bool{}
	for _, s := range geomgen.Collections(small, cfg) {
		if !seen[s.String()] {
			seen[s.String()] = true
			skels = append(skels, s)
		}
	}
	// long members (a thousand to sixty-five thousand vertices, lengths that are no
	// multiple of 2, 4 or 8), alone and next to short ones
	bigN := []int{1025, 4098, 5003}
	if tier == "thorough" {
		bigN = []int{1025, 4098, 5003, 16385, 65539}
	}
	for _, n := range bigN {
		ring := func(n int) geomgen.Skel { return geomgen.Skel{Kind: geomgen.KRing, N: n} }
		line := func(n int) geomgen.Skel { return geomgen.Skel{Kind: geomgen.KLineString, N: n} }
		skels = append(skels,
			line(n),
			geomgen.Skel{Kind: geomgen.KMultiPoint, N: n},
			geomgen.Skel{Kind: geomgen.KMultiLineString, Kids: []geomgen.Skel{line(3), line(n), line(2)}},
			geomgen.Skel{Kind: geomgen.KPolygon, Kids: []geomgen.Skel{ring(n), ring(4)}},
			geomgen.Skel{Kind: geomgen.KMultiPolygon, Kids: []geomgen.Skel{{Kind: geomgen.KPolygon, Kids: []geomgen.Skel{ring(3)}}, {Kind: geomgen.KPolygon, Kids: []geomgen.Skel{ring(n)}}}},
			geomgen.Skel{Kind: geomgen.KCollection, Kids: []geomgen.Skel{line(n), {Kind: geomgen.KPoint}, {Kind: geomgen.KMultiPoint, N: n + 1}}},
		)
	}
	// polygons of three and four rings of unequal lengths, alone and as members
	{
		rg := func(n int) geomgen.Skel { return geomgen.Skel{Kind: geomgen.KRing, N: n} }
		p3 := geomgen.Skel{Kind: geomgen.KPolygon, Kids: []geomgen.Skel{rg(4), rg(6), rg(3)}}
		p4 := geomgen.Skel{Kind: geomgen.KPolygon, Kids: []geomgen.Skel{rg(6), rg(3), rg(5), rg(4)}}
		skels = append(skels, p3, p4,
			geomgen.Skel{Kind: geomgen.KMultiPolygon, Kids: []geomgen.Skel{p4, p3}},
			geomgen.Skel{Kind: geomgen.KCollection, Kids: []geomgen.Skel{{Kind: geomgen.KPoint}, p3, {Kind: geomgen.KMultiLineString, Kids: []geomgen.Skel{{Kind: geomgen.KLineString, N: 3}, {Kind: geomgen.KLineString, N: 5}, {Kind: geomgen.KLineString, N: 2}, {Kind: geomgen.KLineString, N: 4}}}}})
	}
	// inverted boxes (Max below Min, finite corners), alone and as members
	skels = append(skels,
		geomgen.Skel{Kind: geomgen.KBounds, N: -1},
		geomgen.Skel{Kind: geomgen.KCollection, Kids: []geomgen.Skel{{Kind: geomgen.KBounds, N: -1}, {Kind: geomgen.KPoint}}},
		geomgen.Skel{Kind: geomgen.KCollection, Kids: []geomgen.Skel{{Kind: geomgen.KPoint}, {Kind: geomgen.KCollection, Kids: []geomgen.Skel{{Kind: geomgen.KBounds, N: -1}}}}},
	)
	var ngeom int64
	boom := errors.New("transformer failed")
	enum.Parallel(len(skels), rep.Expired, func(si int) {
		s := skels[si]
		mk := func() geom.Geom {
			i := 0
			// (vertices on a parabola: every ring of >= 3 vertices has area)
			return geomgen.Build(s, func() geom.Point { i++; return geom.Point{X: float64(i), Y: float64(i*i + 10*i)} })
		}
		g := mk()
		n := len(geomgen.Flatten(g))
		affine := func(x, y float64) (float64, float64, error) { return 2*x + 3*y + 1, -x + 0.5*y - 7, nil }
		// a second map with a negative determinant (it reverses the winding of every ring)
		mirror := func(x, y float64) (float64, float64, error) { return 5 - x, 2*y - 3, nil }
		viol := func(sym string, det interface{}) {
			gs := "vertex i = (i, i*i+10*i), i = 1.. in storage order"
			if n <= 64 {
				gs = fmt.Sprintf("%#v", g)
			}
			if n > 64 {
				sym += "|long-members"
			}
			rep.Violation(fmt.Sprintf("Transform|%s|%s", s.Kind, sym), map[string]interface{}{"geometry": gs, "skeleton": s.String(), "observed": det})
		}
		expectType := func(in, out geom.Geom) bool {
			if _, ok := in.(*geom.Bounds); ok {
				_, isP := out.(geom.Polygon)
				return isP
			}
			return fmt.Sprintf("%T", in) == fmt.Sprintf("%T", out)
		}
		// nil transformer
		atomic.AddInt64(&ngeom, 1)
		var out geom.Geom
		var err error
		if p := try(func() { out, err = g.Transform(nil) }); p != "" || err != nil {
			viol("nil-transformer-failed", fmt.Sprint(p, err))
		} else if d := geomgen.Diff(g, out, true); d != "" {
			viol("nil-transformer-not-identity", d)
		}
		// affine maps: orientation preserving and orientation reversing
		for ai, affine := range []func(x, y float64) (float64, float64, error){affine, mirror} {
			viol := func(sym string, det interface{}) {
				if ai == 1 {
					sym += "|orientation-reversing-map"
				}
				viol(sym, det)
			}
			if p := try(func() { out, err = g.Transform(affine) }); p != "" || err != nil {
				viol("panic-or-error", fmt.Sprint(p, err))
				continue
			}
			if !expectType(g, out) {
				viol("type-changed", fmt.Sprintf("%T", out))
			}
			want := geomgen.Flatten(g)
			got := geomgen.Flatten(out)
			if len(want) != len(got) {
				viol("vertex-count-changed", fmt.Sprint(len(got), len(want)))
			} else {
				for i := range want {
					x, y, _ := affine(want[i].X, want[i].Y)
					if got[i].X != x || got[i].Y != y {
						viol("vertex-not-transformed-pointwise", fmt.Sprintf("vertex %d: %v", i, got[i]))
						break
					}
				}
			}
			// nesting: compare the structure of out with the structure of the expected geometry
			if _, isB := g.(*geom.Bounds); !isB {
				exp := mapGeom(g, affine)
				if d := geomgen.Diff(exp, out, true); d != "" {
					viol("nesting-changed", d)
				}
			}
			if d := geomgen.Diff(mk(), g, true); d != "" {
				viol("input-modified", d)
			}
		}
		// memory layout: the input with its vertex slices cut from one flat buffer
		// (nil and affine transformer, each twice): same output, buffer not
		// written; and the output must not share storage with the input
		if sym, det := geomgen.LayoutCheck(g, func(x geom.Geom) string {
			var o string
			if p := try(func() {
				a, e1 := x.Transform(nil)
				b, e2 := x.Transform(affine)
				o = fmt.Sprintf("%s %v %s %v", geomgen.Render(a), e1, geomgen.Render(b), e2)
			}); p != "" {
				return "panic: " + p
			}
			return o
		}); sym != "" {
			viol(sym, det)
		}
		if out2, e := g.Transform(affine); e == nil {
			before := geomgen.Render(out2)
			for _, x := range []geom.Geom{g} {
				// overwrite every input vertex in place
				geomgenOverwrite(x)
			}
			if after := geomgen.Render(out2); after != before {
				viol("output-shares-storage-with-input", fmt.Sprintf("output was %s; after the input was overwritten in place it is %s", before, after))
			}
		}
		// fail on the k-th call
		for k := 1; k <= n; k++ {
			if n > 64 && k > 2 && k < n-1 && k != n/2 && k != n/4+1 {
				continue
			}
			calls := 0
			ft := func(x, y float64) (float64, float64, error) {
				calls++
				if calls == k {
					return math.NaN(), math.NaN(), boom
				}
				return x, y, nil
			}
			atomic.AddInt64(&ngeom, 1)
			if p := try(func() { out, err = g.Transform(ft) }); p != "" {
				viol("panic-when-transformer-fails", fmt.Sprintf("k=%d: %s", k, p))
				break
			} else if err == nil {
				viol("error-swallowed", fmt.Sprintf("k=%d", k))
				break
			}
		}
		if si%300 == 0 {
			rep.Sample(6, fmt.Sprintf("Transform on %s", s))
		}
	})
	if rep.Expired() {
		rep.Cap("wall budget expired")
	}
	rep.AddStates(nseq + ngeom)
	rep.AddTransitions(ncalls + ngeom)
	rep.AddEvals(nseq + ngeom)
	rep.AddNontrivial(nontrivial)
	rep.Sample(8, "t0 := [tmerc/OSGB36(7p)].NewTransform([lcc/potsdam(3p)]); t0(point 0); t1 := [EPSG:4326].NewTransform([tmerc/OSGB36(7p)]); t0(point 1)")
	rep.Finish()
}

func execute(rep *report.Run, seq []op, ref map[[3]int]val, ncalls, nontrivial *int64) {
	parsed := map[int]*proj.SR{}
	get := func(i int) *proj.SR {
		if p, ok := parsed[i]; ok {
			return p
		}
		p, err := proj.Parse(srs[i].def)
		if err != nil {
			report.Harness("cannot parse %s: %v", srs[i].def, err)
		}
		parsed[i] = p
		return p
	}
	type built struct {
		t    proj.Transformer
		i, j int
		err  bool
	}
	var ts []built
	callsPer := map[int]int{}
	for n, o := range seq {
		if o.build {
			var t proj.Transformer
			var err error
			if p := try(func() { t, err = get(o.i).NewTransform(get(o.j)) }); p != "" {
				rep.Violation("NewTransform|panic", map[string]interface{}{"sequence": fmt.Sprint(seq[:n+1]), "panic": p})
				return
			}
			ts = append(ts, built{t, o.i, o.j, err != nil})
			continue
		}
		b := ts[o.slot]
		if b.err {
			continue
		}
		atomic.AddInt64(ncalls, 1)
		callsPer[o.slot]++
		got := call(b.t, srs[b.i].pts[o.k])
		want := ref[[3]int{b.i, b.j, o.k}]
		if !got.same(want) {
			kind := "first-call"
			if callsPer[o.slot] > 1 {
				kind = "repeated-call"
			} else if len(ts) > 1 {
				kind = "after-other-transformers"
			}
			sym := "differs-from-fresh-transformer"
			if got.pan != "" {
				sym = "panic"
			}
			rep.Violation(fmt.Sprintf("Transformer|%s|%s", kind, sym), map[string]interface{}{"sequence": fmt.Sprint(seq[:n+1]), "from": srs[b.i].def, "to": srs[b.j].def, "point": srs[b.i].pts[o.k], "got": got.String(), "fresh": want.String()})
			return
		}
	}
	multi := false
	for _, c := range callsPer {
		if c > 1 {
			multi = true
		}
	}
	if multi || len(callsPer) > 1 {
		atomic.AddInt64(nontrivial, 1)
	}
}

// geomgenOverwrite sets every vertex stored in g's slices to (7777, -7777) in place.
func geomgenOverwrite(g geom.Geom) {
	z := geom.Point{X: 7777, Y: -7777}
	fill := func(p []geom.Point) {
		for i := range p {
			p[i] = z
		}
	}
	switch t := g.(type) {
	case geom.MultiPoint:
		fill(t)
	case geom.LineString:
		fill(t)
	case geom.MultiLineString:
		for _, l := range t {
			fill(l)
		}
	case geom.Polygon:
		for _, r := range t {
			fill(r)
		}
	case geom.MultiPolygon:
		for _, p := range t {
			for _, r := range p {
				fill(r)
			}
		}
	case geom.GeometryCollection:
		for _, m := range t {
			geomgenOverwrite(m)
		}
	case *geom.Bounds:
		if t != nil {
			t.Min, t.Max = z, z
		}
	}
}

// mapGeom is the reference structural map (independent of geom's Transform).
func mapGeom(g geom.Geom, f func(x, y float64) (float64, float64, error)) geom.Geom {
	pt := func(p geom.Point) geom.Point { x, y, _ := f(p.X, p.Y); return geom.Point{X: x, Y: y} }
	pts := func(in []geom.Point) []geom.Point {
		o := make([]geom.Point, len(in))
		for i, p := range in {
			o[i] = pt(p)
		}
		return o
	}
	switch t := g.(type) {
	case geom.Point:
		return pt(t)
	case *geom.Bounds:
		return geom.Polygon{pts([]geom.Point{t.Min, {X: t.Max.X, Y: t.Min.Y}, t.Max, {X: t.Min.X, Y: t.Max.Y}})}
	case geom.MultiPoint:
		return geom.MultiPoint(pts(t))
	case geom.LineString:
		return geom.LineString(pts(t))
	case geom.MultiLineString:
		o := make(geom.MultiLineString, len(t))
		for i, l := range t {
			o[i] = pts(l)
		}
		return o
	case geom.Polygon:
		o := make(geom.Polygon, len(t))
		for i, l := range t {
			o[i] = pts(l)
		}
		return o
	case geom.MultiPolygon:
		o := make(geom.MultiPolygon, len(t))
		for i, p := range t {
			o[i] = mapGeom(p, f).(geom.Polygon)
		}
		return o
	case geom.GeometryCollection:
		o := make(geom.GeometryCollection, len(t))
		for i, m := range t {
			o[i] = mapGeom(m, f)
		}
		return o
	}
	return nil
}
