#!/bin/bash
# writes the -overlay JSON that injects the read-only table helper into package proj
R="${VERIF_REPO:-/repo}"; V="${VERIF_ROOT:-$(cd "$(dirname "$0")/../.." && pwd)}"
cat > "$1" <<J
{"Replace": {"$R/proj/verif_hook.go": "$V/overlays/proj/verif_hook.go"}}
J
