// C13 — Simplify keeps endpoints, stays within tolerance and adds no
// self-intersection. Engine E1 with isolated workers (E4's process layer),
// because the property includes termination: every vertex sequence of length
// 0..5(7) over a point set in general position x 6 tolerances, plus an integer
// grid family, polygons and multi-geometries.
package main

import (
	"encoding/json"
	"fmt"
	"math"
	"os"
	"time"

	"github.com/ctessum/geom"

	"verif/mc/fault"
	"verif/mc/geomgen"
	"verif/mc/report"
)

type ipt struct{ X, Y int64 }

var tier = "quick"

// general-position point set: a 3x4 (4x4) grid scaled by 100 with fixed small
// offsets; no three points collinear (verified at start-up).
func pointSet() []ipt {
	offs := []ipt{{0, 0}, {3, 7}, {-5, 11}, {8, -2}, {13, 5}, {-7, -9}, {4, 17}, {-11, 6}, {9, 14}, {-3, -13}, {16, -6}, {-14, 10}, {6, -15}, {-8, 19}, {12, 3}, {-17, -4}}
	rows := 3
	if tier == "thorough" {
		rows = 4
	}
	var p []ipt
	for r := 0; r < rows; r++ {
		for c := 0; c < 4; c++ {
			o := offs[r*4+c]
			p = append(p, ipt{int64(100*c) + o.X, int64(100*r) + o.Y})
		}
	}
	return p
}

// sliverSet is a second general-position point set made of flat triangles and
// long segments that cross at shallow angles (1..5 degrees) close to another
// segment's start: the configurations an epsilon-based parallel test gets
// wrong. It is used at three exact (power-of-two) scales.
func sliverSet() []ipt {
	return []ipt{{0, 0}, {10, 16}, {200, 0}, {4, 4}, {180, -1}, {100, 3}, {60, -3}, {150, 9}}
}

// witnessSet: eight points in general position on which the simplifier is
// known to go through a two-step back-off (a shortcut rejected because it
// crosses a later segment, the next shorter shortcut crossing the segment just
// handed back to the remainder). Explored over every injective sequence.
func witnessSet() []ipt {
	return []ipt{{16, 16}, {4, 18}, {8, 13}, {15, 7}, {11, 0}, {4, 8}, {3, 18}, {11, 4}}
}

var witnessTols = []float64{2, 5, 9.5, 14, 25}

// flatSet: six points spread over 10^7 in x and 0.1 in y (divided by 1000:
// the chords are 10^7 to 10^10 times longer than the tolerances used with them).
func flatSet() []ipt {
	return []ipt{{0, 0}, {6000000000, 50}, {10000000000, 0}, {3000000000, -20}, {8000000000, 35}, {1000000000, 7}}
}

var flatTols = []float64{1e-3, 0.01, 0.03, 0.1}

// injective calls f with every sequence of l distinct indices below n (the
// slice is reused).
func injective(n, l int, f func(seq []int)) {
	seq := make([]int, 0, l)
	var used uint64
	var rec func()
	rec = func() {
		if len(seq) == l {
			f(seq)
			return
		}
		for i := 0; i < n; i++ {
			if used&(1<<uint(i)) != 0 {
				continue
			}
			used |= 1 << uint(i)
			seq = append(seq, i)
			rec()
			seq = seq[:len(seq)-1]
			used &^= 1 << uint(i)
		}
	}
	rec()
}

// longLine builds a simple x-monotone line of n vertices: shape 0 a zigzag of
// amplitude 100 with a slow drift, shape 1 a staircase with small steps, shape
// 2 a zigzag whose amplitude grows.
func longLine(n, shape int) []ipt {
	if shape == 3 {
		// a hook: a run of n vertices that zigzags by 8 along y = 0 (spacing 1000),
		// then the line turns back underneath and sends a spike up to y = 2 between
		// two vertices in the middle of the run, where the run itself is at y = 4: a
		// chord along y = 0 over the run would cross the spike
		var l []ipt
		for i := 0; i < n; i++ {
			l = append(l, ipt{int64(1000 * i), int64(8 * (i % 2))})
		}
		m := int64(1000*(n/4*2) + 500)
		return append(l, ipt{int64(1000 * (n + 5)), 0}, ipt{int64(1000 * (n + 5)), -5000}, ipt{m, -5000}, ipt{m, 2}, ipt{m + 100, -4000}, ipt{m + 200, -4500})
	}
	l := make([]ipt, n)
	for k := range l {
		x := int64(10 * k)
		var y int64
		switch shape {
		case 0:
			y = int64(k%2)*100 + int64(k%7)
		case 1:
			y = int64(k/2)*3 + int64(k%2)
		default:
			y = int64(k%2) * int64(k)
		}
		l[k] = ipt{x, y}
	}
	return l
}

var sliverDivs = []float64{1, 256, 65536}
var sliverTols = []float64{8, 20, 60, 1e9}

func cross(o, a, b ipt) int64 { return (a.X-o.X)*(b.Y-o.Y) - (a.Y-o.Y)*(b.X-o.X) }

func sgn(a int64) int {
	if a > 0 {
		return 1
	}
	if a < 0 {
		return -1
	}
	return 0
}

func onSeg(a, b, p ipt) bool {
	return cross(a, b, p) == 0 && min(a.X, b.X) <= p.X && p.X <= max(a.X, b.X) && min(a.Y, b.Y) <= p.Y && p.Y <= max(a.Y, b.Y)
}

func segsMeet(a, b, c, d ipt) bool {
	d1, d2 := sgn(cross(a, b, c)), sgn(cross(a, b, d))
	d3, d4 := sgn(cross(c, d, a)), sgn(cross(c, d, b))
	if d1*d2 < 0 && d3*d4 < 0 {
		return true
	}
	return onSeg(a, b, c) || onSeg(a, b, d) || onSeg(c, d, a) || onSeg(c, d, b)
}

// simple: no two segments meet except consecutive ones at their shared vertex.
func simple(l []ipt) bool {
	n := len(l) - 1 // segments
	for i := 0; i < n; i++ {
		if l[i] == l[i+1] {
			return false
		}
		for j := i + 1; j < n; j++ {
			if j == i+1 {
				// consecutive: may share only l[j]; overlapping iff the far ends lie on the other segment
				if onSeg(l[i], l[i+1], l[j+1]) || onSeg(l[j], l[j+1], l[i]) {
					return false
				}
				continue
			}
			if segsMeet(l[i], l[i+1], l[j], l[j+1]) {
				return false
			}
		}
	}
	return true
}

func distPS(p, a, b geom.Point) float64 {
	vx, vy := b.X-a.X, b.Y-a.Y
	wx, wy := p.X-a.X, p.Y-a.Y
	c1 := wx*vx + wy*vy
	if c1 <= 0 {
		return math.Hypot(p.X-a.X, p.Y-a.Y)
	}
	c2 := vx*vx + vy*vy
	if c2 <= c1 {
		return math.Hypot(p.X-b.X, p.Y-b.Y)
	}
	return math.Abs(vx*wy-vy*wx) / math.Sqrt(c2)
}

var tolerances = []float64{0, 40, 100, 150, 300, 1e9}

func toPts(l []ipt) []geom.Point {
	o := make([]geom.Point, len(l))
	for i, p := range l {
		o[i] = geom.Point{X: float64(p.X), Y: float64(p.Y)}
	}
	return o
}

// judgeCurve checks the output of simplifying `in` (as a line or ring).
func judgeCurve(in, out []geom.Point, tol float64, wantSimple bool, inI []ipt, outScale float64) (string, string) {
	n := len(in)
	if n == 0 {
		if len(out) != 0 {
			return "output-for-empty-input", fmt.Sprint(out)
		}
		return "", ""
	}
	if len(out) == 0 || out[0] != in[0] || out[len(out)-1] != in[n-1] {
		return "endpoints-not-kept", fmt.Sprint(out)
	}
	if n == 1 && len(out) != 1 {
		return "not-a-subsequence", fmt.Sprint(out)
	}
	if len(out) > n {
		return "not-a-subsequence", fmt.Sprint(out)
	}
	// existence of an order-preserving embedding with 0 -> 0, last -> n-1
	m := len(out)
	if n >= 2 && m < 2 {
		return "endpoints-not-kept", fmt.Sprint(out)
	}
	gapOK := func(j, i int) bool {
		for k := j + 1; k < i; k++ {
			if distPS(in[k], in[j], in[i]) > tol*(1+1e-9)+1e-9 {
				return false
			}
		}
		return true
	}
	embed := make([][]bool, m)   // ignoring tolerance
	embedOK := make([][]bool, m) // respecting tolerance
	for t := range embed {
		embed[t] = make([]bool, n)
		embedOK[t] = make([]bool, n)
	}
	embed[0][0], embedOK[0][0] = true, true
	for t := 1; t < m; t++ {
		for i := 1; i < n; i++ {
			if out[t] != in[i] {
				continue
			}
			for j := 0; j < i; j++ {
				if embed[t-1][j] {
					embed[t][i] = true
				}
				if embedOK[t-1][j] && gapOK(j, i) {
					embedOK[t][i] = true
				}
			}
		}
	}
	if m >= 2 || n == 1 {
		last := n - 1
		if n == 1 {
			last = 0
		}
		if !embed[m-1][last] {
			return "not-a-subsequence", fmt.Sprint(out)
		}
		if !embedOK[m-1][last] {
			return "dropped-vertex-beyond-tolerance", fmt.Sprint(out)
		}
	}
	if wantSimple {
		// map output back to integer points
		oi := make([]ipt, len(out))
		for i, p := range out {
			oi[i] = ipt{int64(math.Round(p.X * outScale)), int64(math.Round(p.Y * outScale))}
		}
		if !simple(oi) {
			return "simple-input-non-simple-output", fmt.Sprint(out)
		}
	}
	return "", ""
}

// Case kinds
type Case struct {
	Kind string // "line", "grid-line", "polygon", "multiline", "multipolygon"
	Seq  []int
	Tol  float64
	Idx  int64
	Div  float64 `json:",omitempty"` // line-sliver: exact power-of-two divisor
}

func rings() [][][]ipt {
	sq := func(x0, y0, x1, y1 int64) []ipt {
		return []ipt{{x0, y0}, {x1, y0}, {x1, y1}, {x0, y1}, {x0, y0}}
	}
	return [][][]ipt{
		{sq(0, 0, 400, 400)},
		{sq(0, 0, 400, 400), sq(100, 100, 200, 200)},
		{{{0, 0}, {130, 20}, {260, -10}, {400, 0}, {410, 200}, {400, 400}, {200, 420}, {0, 400}, {-20, 200}, {0, 0}}},
		{{{0, 0}, {130, 20}, {260, -10}, {400, 0}, {410, 200}, {400, 400}, {200, 420}, {0, 400}, {-20, 200}, {0, 0}}, {{100, 100}, {150, 90}, {200, 100}, {210, 150}, {200, 200}, {100, 200}, {100, 100}}},
		{{{0, 0}, {400, 0}, {400, 100}, {100, 100}, {100, 300}, {400, 300}, {400, 400}, {0, 400}}}, // unclosed C shape
		{{{5, 5}}, {}, {{1, 1}, {9, 9}}}, // degenerate rings
		{},
		// degenerate rings (no, one, two vertices) next to rings that lose vertices
		{sq(0, 0, 400, 400), {}},
		{{}, {{0, 0}, {130, 20}, {260, -10}, {400, 0}, {410, 200}, {400, 400}, {200, 420}, {0, 400}, {-20, 200}, {0, 0}}},
		{{{0, 0}, {130, 20}, {260, -10}, {400, 0}, {410, 200}, {400, 400}, {200, 420}, {0, 400}, {-20, 200}, {0, 0}}, {{150, 150}}, {{100, 100}, {150, 90}, {200, 100}, {210, 150}, {200, 200}, {100, 200}, {100, 100}}},
		{{{0, 0}, {130, 20}, {260, -10}, {400, 0}, {410, 200}, {400, 400}, {200, 420}, {0, 400}, {-20, 200}, {0, 0}}, {{100, 100}, {200, 200}}, {}},
	}
}

func enumerate(visit func(idx int64, mk func() Case)) {
	var idx int64
	emit := func(mk func() Case) { visit(idx, mk); idx++ }
	ps := pointSet()
	maxLen := 6
	if tier == "thorough" {
		maxLen = 6
	}
	for l := 0; l <= maxLen; l++ {
		total := 1
		for i := 0; i < l; i++ {
			total *= len(ps)
		}
		for s := 0; s < total; s++ {
			for _, tol := range tolerances {
				l, s, tol := l, s, tol
				emit(func() Case {
					seq := make([]int, l)
					t := s
					for i := range seq {
						seq[i] = t % len(ps)
						t /= len(ps)
					}
					return Case{Kind: "line", Seq: seq, Tol: tol}
				})
			}
		}
	}
	// the same point set scaled by 1e-3 (coordinates 0..0.3, tolerances scaled):
	// intersection tests with an absolute or mixed epsilon behave differently at
	// this scale
	// and by 1e-5 (coordinates 0..3e-3): products of segment lengths fall
	// below any fixed relative-times-length threshold
	for _, fam := range []struct {
		kind string
		tols []float64
	}{{"line-small", []float64{0.04, 0.1, 0.3}}, {"line-tiny", []float64{4e-4, 1e-3, 3e-3}}, {"line-huge", []float64{40 * math.Ldexp(1, 80), 100 * math.Ldexp(1, 80), 300 * math.Ldexp(1, 80)}},
		// the point set moved (exactly) to (2^22, 3*2^21): the lines are four
		// orders of magnitude smaller than their coordinates
		{"line-far", []float64{40, 100, 300}}} {
		for l := 3; l <= 5; l++ {
			total := 1
			for i := 0; i < l; i++ {
				total *= len(ps)
			}
			for s := 0; s < total; s++ {
				for _, tol := range fam.tols {
					l, s, tol, kind := l, s, tol, fam.kind
					emit(func() Case {
						seq := make([]int, l)
						t := s
						for i := range seq {
							seq[i] = t % len(ps)
							t /= len(ps)
						}
						return Case{Kind: kind, Seq: seq, Tol: tol}
					})
				}
			}
		}
	}
	// sliver family: every sequence of length 3..6 over the 8 sliver points
	sl := len(sliverSet())
	for _, div := range sliverDivs {
		for l := 3; l <= 6; l++ {
			total := 1
			for i := 0; i < l; i++ {
				total *= sl
			}
			for s := 0; s < total; s++ {
				for _, tol := range sliverTols {
					l, s, tol, div := l, s, tol, div
					emit(func() Case {
						seq := make([]int, l)
						t := s
						for i := range seq {
							seq[i] = t % sl
							t /= sl
						}
						return Case{Kind: "line-sliver", Seq: seq, Tol: tol / div, Div: div}
					})
				}
			}
		}
	}
	// injective sequences (a simple line never repeats a vertex): the witness
	// set to its full length 8, the main point set at length 7 (thorough 8)
	for l := 3; l <= 8; l++ {
		injective(len(witnessSet()), l, func(seq []int) {
			for _, tol := range witnessTols {
				tol := tol
				emit(func() Case { return Case{Kind: "line-witness", Seq: append([]int{}, seq...), Tol: tol} })
			}
		})
	}
	for l := 3; l <= 6; l++ {
		injective(len(flatSet()), l, func(seq []int) {
			for _, tol := range flatTols {
				tol := tol
				emit(func() Case { return Case{Kind: "line-flat", Seq: append([]int{}, seq...), Tol: tol} })
			}
		})
	}
	injMax := 7 // (thorough: length 7 over the 16-point set, 57.7 million sequences)
	for l := 7; l <= injMax; l++ {
		injective(len(ps), l, func(seq []int) {
			for _, tol := range []float64{40, 100, 150} {
				tol := tol
				emit(func() Case { return Case{Kind: "line", Seq: append([]int{}, seq...), Tol: tol} })
			}
		})
	}
	// long simple lines (an implementation may treat long inputs differently)
	for _, n := range []int{63, 64, 65, 100, 257, 1000} {
		for shape := 0; shape < 3; shape++ {
			for _, tol := range []float64{0, 2, 30, 150, 1e9} {
				n, shape, tol := n, shape, tol
				emit(func() Case { return Case{Kind: "line-long", Seq: []int{n, shape}, Tol: tol} })
			}
		}
	}
	// hooks: long runs within the tolerance and a later spike between run and chord
	for _, n := range []int{12, 100, 400, 516, 700, 1500} {
		for _, tol := range []float64{0, 10, 50, 1000} {
			n, tol := n, tol
			emit(func() Case { return Case{Kind: "line-long", Seq: []int{n, 3}, Tol: tol} })
		}
	}
	// integer grid family (not in general position): 4x4, length <= 4
	for l := 0; l <= 4; l++ {
		total := 1
		for i := 0; i < l; i++ {
			total *= 16
		}
		for s := 0; s < total; s++ {
			for _, tol := range []float64{0, 0.5, 1, 2.5} {
				l, s, tol := l, s, tol
				emit(func() Case {
					seq := make([]int, l)
					t := s
					for i := range seq {
						seq[i] = t % 16
						t /= 16
					}
					return Case{Kind: "grid-line", Seq: seq, Tol: tol}
				})
			}
		}
	}
	for ri := range rings() {
		for _, tol := range []float64{0, 5, 15, 40, 150, 1e9} {
			ri, tol := ri, tol
			emit(func() Case { return Case{Kind: "polygon", Seq: []int{ri}, Tol: tol} })
			for rj := range rings() {
				rj := rj
				emit(func() Case { return Case{Kind: "multipolygon", Seq: []int{ri, rj}, Tol: tol} })
			}
		}
	}
	// multi-line strings of two members over sequences of length <= 3
	for l1 := 0; l1 <= 3; l1++ {
		for l2 := 0; l2 <= 3; l2++ {
			t1, t2 := 1, 1
			for i := 0; i < l1; i++ {
				t1 *= len(ps)
			}
			for i := 0; i < l2; i++ {
				t2 *= len(ps)
			}
			for a := 0; a < t1; a += 7 {
				for b := 0; b < t2; b += 11 {
					for _, tol := range []float64{0, 100, 1e9} {
						l1, l2, a, b, tol := l1, l2, a, b, tol
						emit(func() Case {
							seq := []int{l1}
							t := a
							for i := 0; i < l1; i++ {
								seq = append(seq, t%len(ps))
								t /= len(ps)
							}
							t = b
							for i := 0; i < l2; i++ {
								seq = append(seq, t%len(ps))
								t /= len(ps)
							}
							return Case{Kind: "multiline", Seq: seq, Tol: tol}
						})
					}
				}
			}
		}
	}
}

func try(f func()) (p string) {
	defer func() {
		if r := recover(); r != nil {
			p = fmt.Sprint(r)
		}
	}()
	f()
	return ""
}

func lenClass(n int) string {
	if n < 3 {
		return fmt.Sprintf("len=%d", n)
	}
	return "len>=3"
}

// execute returns symptom, detail, nontrivial.
func execute(c Case) (string, string, bool) {
	ps := pointSet()
	switch c.Kind {
	case "line", "grid-line", "line-small", "line-tiny", "line-huge", "line-sliver", "line-witness", "line-long", "line-flat", "line-far":
		li := make([]ipt, len(c.Seq))
		if c.Kind == "line-long" {
			li = longLine(c.Seq[0], c.Seq[1])
		}
		if c.Kind == "line-sliver" {
			ps = sliverSet()
		} else if c.Kind == "line-witness" {
			ps = witnessSet()
		} else if c.Kind == "line-flat" {
			ps = flatSet()
		}
		for i, k := range c.Seq {
			if c.Kind == "line-long" {
				break
			}
			if c.Kind != "grid-line" {
				li[i] = ps[k]
			} else {
				li[i] = ipt{int64(k % 4), int64(k / 4)}
			}
		}
		in := geom.LineString(toPts(li))
		sc := 1.0
		if c.Kind == "line-small" {
			sc = 1000
		} else if c.Kind == "line-tiny" {
			sc = 1e5
		} else if c.Kind == "line-flat" {
			sc = 1000
		} else if c.Kind == "line-huge" {
			sc = math.Ldexp(1, -80) // (coordinates are divided by sc: an exact scaling by 2^80)
		} else if c.Kind == "line-sliver" {
			sc = c.Div
		}
		for i := range in {
			in[i].X, in[i].Y = in[i].X/sc, in[i].Y/sc
			if c.Kind == "line-far" {
				in[i].X, in[i].Y = in[i].X+4194304, in[i].Y+6291456
			}
		}
		cp := append(geom.LineString{}, in...)
		var res geom.Geom
		if p := try(func() { res = in.Simplify(c.Tol) }); p != "" {
			return "LineString|panic|" + lenClass(len(li)), p, false
		}
		out, ok := res.(geom.LineString)
		if !ok {
			return "LineString|wrong-type", fmt.Sprintf("%T", res), false
		}
		for i := range in {
			if in[i] != cp[i] {
				return "LineString|input-modified", "", false
			}
		}
		wantSimple := c.Kind != "grid-line" && len(li) >= 2 && simple(li)
		if c.Idx%8 == 0 {
			// memory layout: the input as a slice with spare capacity in front of
			// other data, and a second call on the same value
			if sym, det := geomgen.LayoutCheck(in, func(x geom.Geom) string {
				var o string
				if p := try(func() { o = fmt.Sprint(x.(geom.Simplifier).Simplify(c.Tol)) }); p != "" {
					return "panic: " + p
				}
				return o
			}); sym != "" {
				return "LineString|" + sym + "|" + lenClass(len(li)), fmt.Sprintf("input %v tol %g: %s", in, c.Tol, det), false
			}
		}
		sym, det := judgeCurve(in, out, c.Tol, wantSimple, li, sc)
		if sym != "" {
			return "LineString|" + sym + "|" + lenClass(len(li)), fmt.Sprintf("input %v tol %g output %s", in, c.Tol, det), len(out) < len(in)
		}
		return "", "", len(out) < len(in)
	case "polygon", "multipolygon":
		mk := func(ri int) geom.Polygon {
			var p geom.Polygon
			for _, r := range rings()[ri] {
				p = append(p, toPts(r))
			}
			return p
		}
		if c.Kind == "polygon" {
			in := mk(c.Seq[0])
			var res geom.Geom
			if p := try(func() { res = in.Simplify(c.Tol) }); p != "" {
				return "Polygon|panic", p, false
			}
			out, ok := res.(geom.Polygon)
			if !ok || len(out) != len(in) {
				return "Polygon|wrong-shape", fmt.Sprintf("%v", res), false
			}
			if sym, det := geomgen.LayoutCheck(in, func(x geom.Geom) string {
				var o string
				if p := try(func() { o = fmt.Sprint(x.(geom.Simplifier).Simplify(c.Tol)) }); p != "" {
					return "panic: " + p
				}
				return o
			}); sym != "" {
				return "Polygon|" + sym, fmt.Sprintf("%v tol %g: %s", in, c.Tol, det), false
			}
			ref := mk(c.Seq[0])
			dropped := false
			for i := range in {
				for k := range in[i] {
					if in[i][k] != ref[i][k] {
						return "Polygon|input-modified", "", false
					}
				}
				if sym, det := judgeCurve(in[i], out[i], c.Tol, false, nil, 1); sym != "" {
					return "Polygon|" + sym + "|" + lenClass(len(in[i])), fmt.Sprintf("ring %d of %v tol %g output %s", i, in, c.Tol, det), false
				}
				if len(out[i]) < len(in[i]) {
					dropped = true
				}
			}
			return "", "", dropped
		}
		in := geom.MultiPolygon{mk(c.Seq[0]), mk(c.Seq[1])}
		var res geom.Geom
		if p := try(func() { res = in.Simplify(c.Tol) }); p != "" {
			return "MultiPolygon|panic", p, false
		}
		out, ok := res.(geom.MultiPolygon)
		if !ok || len(out) != 2 {
			return "MultiPolygon|wrong-shape", fmt.Sprintf("%v", res), false
		}
		if sym, det := geomgen.LayoutCheck(in, func(x geom.Geom) string {
			var o string
			if p := try(func() { o = fmt.Sprint(x.(geom.Simplifier).Simplify(c.Tol)) }); p != "" {
				return "panic: " + p
			}
			return o
		}); sym != "" {
			return "MultiPolygon|" + sym, fmt.Sprintf("%v tol %g: %s", in, c.Tol, det), false
		}
		for m := 0; m < 2; m++ {
			want := mk(c.Seq[m]).Simplify(c.Tol).(geom.Polygon)
			if fmt.Sprint(want) != fmt.Sprint(out[m]) {
				return "MultiPolygon|members-not-independent", fmt.Sprintf("member %d: %v vs alone %v", m, out[m], want), false
			}
		}
		return "", "", true
	case "multiline":
		l1 := c.Seq[0]
		a := make([]ipt, 0)
		for _, k := range c.Seq[1 : 1+l1] {
			a = append(a, ps[k])
		}
		b := make([]ipt, 0)
		for _, k := range c.Seq[1+l1:] {
			b = append(b, ps[k])
		}
		in := geom.MultiLineString{toPts(a), toPts(b)}
		var res geom.Geom
		if p := try(func() { res = in.Simplify(c.Tol) }); p != "" {
			return "MultiLineString|panic", p, false
		}
		out, ok := res.(geom.MultiLineString)
		if !ok || len(out) != 2 {
			return "MultiLineString|wrong-shape", fmt.Sprintf("%v", res), false
		}
		for m, src := range [][]ipt{a, b} {
			want := geom.LineString(toPts(src)).Simplify(c.Tol).(geom.LineString)
			if fmt.Sprint(want) != fmt.Sprint(out[m]) {
				return "MultiLineString|members-not-independent", fmt.Sprintf("member %d: %v vs alone %v", m, out[m], want), false
			}
		}
		return "", "", true
	}
	return "", "", false
}

func worker(shard, nshards int, start int64, announce func(int64), viol func(int64, string, interface{})) fault.Summary {
	sum := fault.Summary{Counters: map[string]int64{}}
	enumerate(func(idx int64, mk func() Case) {
		if idx < start || idx%int64(nshards) != int64(shard) {
			return
		}
		announce(idx)
		c := mk()
		c.Idx = idx
		sym, det, nt := execute(c)
		sum.Cases++
		sum.Counters[c.Kind]++
		if nt {
			sum.Nontrivial++
		}
		if sym != "" {
			viol(idx, sym, map[string]interface{}{"case": c, "observed": det})
		}
		if len(sum.Samples) < 1 && idx%10007 == int64(shard) {
			sum.Samples = append(sum.Samples, fmt.Sprintf("%+v", c))
		}
	})
	return sum
}

func main() {
	if t := os.Getenv("VERIF_TIER"); t != "" {
		tier = t
	}
	fault.IsWorker(worker)
	if len(os.Args) > 1 {
		tier = os.Args[1]
	}
	if tier == "replay" {
		b, err := os.ReadFile(os.Args[2])
		if err != nil {
			report.Harness("%v", err)
		}
		var f struct{ Case struct{ Case Case } }
		json.Unmarshal(b, &f)
		fmt.Printf("case %+v\n(running it directly; a hang here reproduces the non-termination)\n", f.Case.Case)
		sym, det, _ := execute(f.Case.Case)
		fmt.Printf("result: %q %s\n", sym, det)
		if sym != "" {
			os.Exit(1)
		}
		return
	}
	os.Setenv("VERIF_TIER", tier)
	// general position is a precondition of the simplicity clause
	for _, ps := range [][]ipt{pointSet(), sliverSet(), witnessSet()} {
		for i := range ps {
			for j := i + 1; j < len(ps); j++ {
				for k := j + 1; k < len(ps); k++ {
					if cross(ps[i], ps[j], ps[k]) == 0 {
						report.Harness("point set is not in general position: %v %v %v", ps[i], ps[j], ps[k])
					}
				}
			}
		}
	}
	r := report.New("C13", tier, "model_checking")
	r.Rule = "E1 (isolated workers, 2 GiB address-space limit, 60 s silence horizon): every vertex sequence of length 0..6 (thorough: over 16 points) over a 12-point set with no three points collinear (verified exactly) x tolerances {0,40,100,150,300,1e9}; every sequence of length 3..5 over the same point set scaled by 1e-3, by 1e-5 and (exactly) by 2^80 x 3 scaled tolerances each, and moved (exactly) to (2^22, 3*2^21) x 3 tolerances; every sequence of length 3..6 over an 8-point sliver set (flat triangles, 1..5 degree crossings; no three collinear) at the exact scales 1, 2^-8, 2^-16 x 4 tolerances; every injective sequence of length 3..8 over an 8-point witness set (two-step back-offs) x 5 tolerances and of length 7 over the main set x 3 tolerances; every injective sequence of length 3..6 over a flat 6-point set (extent 10^7 x 0.1) x 4 tolerances of 1e-3..0.1 (chords 10^8..10^10 tolerances long); three shapes of simple x-monotone lines of 63..1000 vertices x 5 tolerances; hooks (a run of 12..1500 vertices within the tolerance and a later spike of the same line between the run and its chord) x 4 tolerances; every sequence of length <= 4 over the plain 4x4 integer grid x 4 tolerances (termination / subsequence / tolerance clauses only); 11 polygons (holes, unclosed, degenerate rings alone and next to rings that lose vertices) x 6 tolerances and all ordered pairs as MultiPolygon; two-member MultiLineStrings. Oracle (every polygon / multi case and every 8th line case also with the vertex slices cut from one flat buffer and called twice: same output, buffer not written): terminates; output is an order-preserving subsequence keeping first and last vertex; an embedding exists in which every dropped vertex is within tol of its replacing segment; exactly simple input => exactly simple output; input unchanged; multi members equal the member simplified alone. Non-trivial = calls that drop at least one vertex."
	sum := fault.Sweep(r, 16, 2<<20, 60*time.Second, func(idx int64) (string, interface{}) {
		var sig string
		var det interface{}
		enumerate(func(i int64, mk func() Case) {
			if i == idx {
				c := mk()
				c.Idx = idx
				n := len(c.Seq)
				sig = fmt.Sprintf("%s|does-not-terminate|%s", map[string]string{"line": "LineString", "grid-line": "LineString", "polygon": "Polygon", "multipolygon": "MultiPolygon", "multiline": "MultiLineString"}[c.Kind], lenClass(n))
				det = map[string]interface{}{"case": c, "observed": "worker process died (out of memory) or was silent for 60 s while simplifying this input"}
			}
		})
		return sig, det
	})
	r.AddEvals(sum.Cases)
	r.AddNontrivial(sum.Nontrivial)
	r.Set("families", sum.Counters)
	for _, s := range sum.Samples {
		r.Sample(10, s)
	}
	if r.Expired() {
		r.Cap("wall budget expired")
	}
	r.Finish()
}
