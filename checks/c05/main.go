// C05 — WKB and hex encodings are lossless and byte-exact to the OGC layout.
// Engine E1: every structure tree (bounded) x every rotation of a list of
// twelve 64-bit patterns x both byte orders for encoding, and every assignment
// of a byte order to every nested element for decoding.
package main

import (
	"bytes"
	"encoding/binary"
	stdhex "encoding/hex"
	"encoding/json"
	"fmt"
	"io"
	"math"
	"os"
	"strings"
	"sync/atomic"

	"github.com/ctessum/geom"
	"github.com/ctessum/geom/encoding/hex"
	"github.com/ctessum/geom/encoding/wkb"

	"verif/mc/enum"
	"verif/mc/geomgen"
	"verif/mc/report"
	"verif/mc/wkbref"
)

var patterns = []uint64{
	0x0000000000000000, // +0
	0x8000000000000000, // -0
	0x3ff0000000000000, // 1
	0xbff8000000000000, // -1.5
	0x7ff8000000000001, // quiet NaN with payload
	0x7ff0000000000001, // signalling NaN
	0xfff8000000abcdef, // negative NaN with payload
	0x7ff0000000000000, // +Inf
	0xfff0000000000000, // -Inf
	0x0000000000000001, // smallest subnormal
	0x000fffffffffffff, // largest subnormal
	0x0102030405060708, // all bytes different (byte-order witness)
}

// Case is one replayable case.
type Case struct {
	Skel  geomgen.Skel
	Rot   int   // rotation of the pattern list (coordinate slot i gets pattern (i+Rot) mod 12)
	Pair  []int // explicit pattern indices for the first slots (full product for small shapes)
	Order int   // 0 XDR, 1 NDR
	Mixed []int // per-element byte order for the decode-side case (nil: not a mixed case)
	Large int   // > 0: a geometry of the skeleton's kind with this many vertices in its (last) member
	// Many > 0: a geometry with many members: Shape "wide" = this many small
	// members of the skeleton's kind, "deep" = a chain of collections nested
	// this deep, "tree" = a complete binary tree of collections of this depth
	Near  bool   `json:",omitempty"` // every ring / line of >= 2 vertices gets its second vertex and a copy of its first vertex whose X bit pattern is one higher appended (an almost closed ring)
	Many  int    `json:",omitempty"`
	Shape string `json:",omitempty"`
}

var otherGeom = geom.MultiLineString{{{X: 1, Y: 2}, {X: 3, Y: 4}, {X: 5, Y: 6}, {X: 7, Y: 8}}, {{X: 9, Y: 10}}}

func build(c Case) geom.Geom {
	i := 0
	val := func() float64 {
		var p uint64
		if i < len(c.Pair) {
			p = patterns[c.Pair[i]]
		} else {
			p = patterns[(i+c.Rot)%len(patterns)]
		}
		i++
		return math.Float64frombits(p)
	}
	if c.Many > 0 {
		pt := func() geom.Point { x := val(); y := val(); return geom.Point{X: x, Y: y} }
		switch c.Shape {
		case "deep":
			var g geom.Geom = pt()
			for k := 0; k < c.Many; k++ {
				g = geom.GeometryCollection{g}
			}
			return g
		case "tree":
			var mk func(d int) geom.Geom
			mk = func(d int) geom.Geom {
				if d == 0 {
					return pt()
				}
				return geom.GeometryCollection{mk(d - 1), mk(d - 1)}
			}
			return mk(c.Many)
		}
		switch c.Skel.Kind {
		case geomgen.KMultiLineString:
			o := make(geom.MultiLineString, c.Many)
			for k := range o {
				o[k] = geom.LineString{pt(), pt()}
			}
			return o
		case geomgen.KPolygon:
			o := make(geom.Polygon, c.Many)
			for k := range o {
				o[k] = geom.Path{pt(), pt(), pt()}
			}
			return o
		case geomgen.KMultiPolygon:
			o := make(geom.MultiPolygon, c.Many)
			for k := range o {
				o[k] = geom.Polygon{{pt(), pt(), pt()}}
			}
			return o
		default:
			o := make(geom.GeometryCollection, c.Many)
			for k := range o {
				if k%3 == 2 {
					o[k] = geom.GeometryCollection{}
				} else {
					o[k] = geom.GeometryCollection{pt()}
				}
			}
			return o
		}
	}
	if c.Large > 0 {
		pts := make([]geom.Point, c.Large)
		for k := range pts {
			pts[k] = geom.Point{X: val(), Y: float64(k)}
		}
		switch c.Skel.Kind {
		case geomgen.KLineString:
			return geom.LineString(pts)
		case geomgen.KMultiPoint:
			return geom.MultiPoint(pts)
		case geomgen.KPolygon:
			return geom.Polygon{pts[:3], pts}
		case geomgen.KMultiLineString:
			return geom.MultiLineString{pts[:2], pts}
		case geomgen.KMultiPolygon:
			return geom.MultiPolygon{{pts[:1]}, {pts, pts[:4]}}
		default:
			return geom.GeometryCollection{geom.LineString(pts), geom.GeometryCollection{geom.Polygon{pts}}}
		}
	}
	g := geomgen.Build(c.Skel, func() geom.Point { x := val(); y := val(); return geom.Point{X: x, Y: y} })
	if c.Near {
		cl := func(p []geom.Point) []geom.Point {
			if len(p) >= 2 {
				// (the second vertex once more, so that even a two-vertex member becomes a ring of four)
				return append(p, p[1], geom.Point{X: math.Float64frombits(math.Float64bits(p[0].X) + 1), Y: p[0].Y})
			}
			return p
		}
		var rec func(g geom.Geom) geom.Geom
		rec = func(g geom.Geom) geom.Geom {
			switch t := g.(type) {
			case geom.LineString:
				return geom.LineString(cl(t))
			case geom.MultiLineString:
				for i := range t {
					t[i] = cl(t[i])
				}
			case geom.Polygon:
				for i := range t {
					t[i] = cl(t[i])
				}
			case geom.MultiPolygon:
				for i := range t {
					for j := range t[i] {
						t[i][j] = cl(t[i][j])
					}
				}
			case geom.GeometryCollection:
				for i := range t {
					t[i] = rec(t[i])
				}
			}
			return g
		}
		g = rec(g)
	}
	return g
}

func try(f func()) (p string) {
	defer func() {
		if r := recover(); r != nil {
			p = fmt.Sprint(r)
		}
	}()
	f()
	return ""
}

var otherEnc = func() []byte {
	b, _, err := wkbref.Encode(otherGeom, func(int) bool { return true })
	if err != nil {
		panic(err)
	}
	return b
}()

// check returns (symptom, detail) or "".
func check(c Case) (string, string) {
	g := build(c)
	var bo binary.ByteOrder = wkb.XDR
	if c.Order == 1 {
		bo = wkb.NDR
	}
	if c.Mixed != nil {
		ref, _, err := wkbref.Encode(g, func(el int) bool { return c.Mixed[el] == 1 })
		if err != nil {
			report.Harness("%v", err)
		}
		var got geom.Geom
		var derr error
		if p := try(func() { got, derr = wkb.Decode(ref) }); p != "" {
			return "decode-mixed-panic", p
		}
		if derr != nil {
			return "decode-mixed-error", fmt.Sprintf("%v on %x", derr, ref)
		}
		if d := geomgen.Diff(g, got, true); d != "" {
			return "decode-mixed-differs", d + fmt.Sprintf(" on %x", ref)
		}
		return "", ""
	}
	ref, _, err := wkbref.Encode(g, func(int) bool { return c.Order == 1 })
	if err != nil {
		report.Harness("%v", err)
	}
	var enc []byte
	var eerr error
	if p := try(func() { enc, eerr = wkb.Encode(g, bo) }); p != "" {
		return "encode-panic", p
	}
	if eerr != nil {
		return "encode-error", eerr.Error()
	}
	if !bytes.Equal(enc, ref) {
		return "encode-bytes-differ", fmt.Sprintf("got %x want %x", enc, ref)
	}
	var got geom.Geom
	var derr error
	if p := try(func() { got, derr = wkb.Decode(enc) }); p != "" {
		return "decode-panic", p
	}
	if derr != nil {
		return "decode-error", derr.Error()
	}
	if d := geomgen.Diff(g, got, true); d != "" {
		return "roundtrip-differs", d
	}
	// memory layout: the geometry with its vertex slices cut from one flat
	// buffer encodes to the same bytes and is not written to
	if sym, det := geomgen.LayoutCheck(g, func(x geom.Geom) string {
		var o string
		if p := try(func() { b, err := wkb.Encode(x, bo); o = fmt.Sprintf("%x %v", b, err) }); p != "" {
			return "panic: " + p
		}
		return o
	}); sym != "" {
		return "encode|" + sym, det
	}
	// the geometry decoded earlier must survive a later Decode call (history)
	if p := try(func() { wkb.Decode(otherEnc) }); p == "" {
		if d := geomgen.Diff(g, got, true); d != "" {
			return "decoded-geometry-changed-by-later-Decode", d
		}
	}
	// the bytes returned earlier must survive a later Encode call (history)
	saved := append([]byte{}, enc...)
	if _, e2 := wkb.Encode(otherGeom, wkb.XDR); e2 == nil {
		wkb.Encode(geom.Point{X: 9, Y: 9}, wkb.NDR)
		if !bytes.Equal(saved, enc) {
			return "returned-bytes-changed-by-later-Encode", fmt.Sprintf("was %x now %x", saved, enc)
		}
	}
	// stream API: Read must consume exactly the encoding
	rd := bytes.NewReader(append(append([]byte{}, ref...), 0xAA, 0xBB, 0xCC))
	if g2, err := wkb.Read(rd); err != nil || geomgen.Diff(g, g2, true) != "" || rd.Len() != 3 {
		return "read-stream", fmt.Sprintf("err=%v remaining=%d", err, rd.Len())
	}
	// the environment's answers: a reader that hands out one byte per call, one
	// that hands out 3 then 5 then 3 .. bytes, and one that returns the last
	// bytes together with io.EOF (all three are legal io.Readers)
	for mode := 0; mode < 3; mode++ {
		sr := &slowReader{data: ref, mode: mode}
		var g2 geom.Geom
		var err error
		if p := try(func() { g2, err = wkb.Read(sr) }); p != "" {
			return "read-stream-panic|short-reads", fmt.Sprintf("mode %d: %s", mode, p)
		}
		if err != nil || geomgen.Diff(g, g2, true) != "" || sr.pos != len(ref) {
			return "read-stream|short-reads", fmt.Sprintf("mode %d: err=%v consumed=%d of %d", mode, err, sr.pos, len(ref))
		}
	}
	var wb bytes.Buffer
	if err := wkb.Write(&wb, bo, g); err != nil || !bytes.Equal(wb.Bytes(), ref) {
		return "write-stream", fmt.Sprintf("err=%v", err)
	}
	// hex
	var hs string
	if p := try(func() { hs, eerr = hex.Encode(g, bo) }); p != "" {
		return "hex-encode-panic", p
	}
	if eerr != nil || hs != stdhex.EncodeToString(ref) {
		return "hex-encode-differs", fmt.Sprintf("err=%v got %s", eerr, hs)
	}
	for _, s := range []string{hs, strings.ToUpper(hs)} {
		if p := try(func() { got, derr = hex.Decode(s) }); p != "" {
			return "hex-decode-panic", p
		}
		if derr != nil {
			return "hex-decode-error", derr.Error()
		}
		if d := geomgen.Diff(g, got, true); d != "" {
			return "hex-roundtrip-differs", d
		}
	}
	return "", ""
}

// slowReader is an io.Reader over data that returns short reads.
type slowReader struct {
	data []byte
	pos  int
	mode int // 0: one byte per call; 1: 3, 5, 3, 5 .. bytes; 2: as much as asked, the last bytes together with io.EOF
	n    int
}

func (r *slowReader) Read(p []byte) (int, error) {
	if len(p) == 0 {
		return 0, nil
	}
	if r.pos >= len(r.data) {
		return 0, io.EOF
	}
	k := len(p)
	switch r.mode {
	case 0:
		k = 1
	case 1:
		k = 3 + 2*(r.n%2)
		r.n++
	}
	if k > len(p) {
		k = len(p)
	}
	if k > len(r.data)-r.pos {
		k = len(r.data) - r.pos
	}
	copy(p, r.data[r.pos:r.pos+k])
	r.pos += k
	if r.mode == 2 && r.pos == len(r.data) {
		return k, io.EOF
	}
	return k, nil
}

func main() {
	tier := "quick"
	if len(os.Args) > 1 {
		tier = os.Args[1]
	}
	if tier == "replay" {
		b, err := os.ReadFile(os.Args[2])
		if err != nil {
			report.Harness("%v", err)
		}
		var f struct{ Case struct{ Case Case } }
		json.Unmarshal(b, &f)
		sym, det := check(f.Case.Case)
		fmt.Printf("case %+v\ngeometry %#v\nresult: %q %s\n", f.Case.Case, build(f.Case.Case), sym, det)
		if sym != "" {
			os.Exit(1)
		}
		return
	}
	r := report.New("C05", tier, "model_checking")
	r.Rule = "E1: every structure tree of the 7 encodable types (members 0..2(3), ring/line lengths 0..2(3), collections nested to depth 3) x 12 rotations of a list of twelve 64-bit patterns (full 144 product for points) x {XDR,NDR}: Encode bytes == independent OGC serializer, Decode(Encode) bit-identical, stream Read/Write (Read also through readers that return one byte per call, 3/5-byte pieces, and the last bytes together with io.EOF), hex lower/upper, returned bytes unchanged by later Encode calls; members of 31..5000 vertices (around and beyond the reader's chunk sizes); decode side: every assignment of a byte order to every nested element (all 2^n for n<=8 elements, uniform + single/double flips above). Non-trivial = cases with >=2 nested elements or a non-finite / signed-zero / subnormal coordinate. Large members up to 70000 vertices (hex texts beyond 1 MiB). Many members: 31..70000 members of each multi type / rings / one-point collections, collection chains nested 8..200 deep, complete binary trees of collections of depth 3..7."
	cfg := geomgen.Config{MaxMembers: 2, Lens: []int{0, 1, 2}, FlatMax: 2, PolyRings: 2, Depth: 3, GCMembers: 2}
	if tier == "thorough" {
		cfg = geomgen.Config{MaxMembers: 3, Lens: []int{0, 1, 2, 3}, FlatMax: 3, PolyRings: 2, Depth: 3, GCMembers: 3}
	}
	var skels []geomgen.Skel
	for _, s := range geomgen.Simple(cfg) {
		if s.Kind != geomgen.KBounds {
			skels = append(skels, s)
		}
	}
	small := geomgen.Simple(geomgen.Config{MaxMembers: 1, Lens: []int{0, 1}, FlatMax: 1, PolyRings: 1})
	seen := map[string]bool{}
	for _, s := range geomgen.Collections(small, cfg) {
		if !seen[s.String()] {
			seen[s.String()] = true
			skels = append(skels, s)
		}
	}
	r.Set("skeletons", len(skels))
	var n, nontrivial, nmixed int64
	enum.Parallel(len(skels), r.Expired, func(i int) {
		s := skels[i]
		run := func(c Case) {
			atomic.AddInt64(&n, 1)
			if s.NElems() >= 2 {
				atomic.AddInt64(&nontrivial, 1)
			}
			if sym, det := check(c); sym != "" {
				kind := "uniform"
				if c.Mixed != nil {
					kind = "mixed"
				}
				r.Violation(fmt.Sprintf("%s|%s|order=%d|%s", sym, s.Kind, c.Order, kind), map[string]interface{}{"case": c, "skeleton": s.String(), "observed": det})
			}
		}
		np := s.NPoints()
		for order := 0; order < 2; order++ {
			if np == 1 {
				for a := range patterns {
					for b := range patterns {
						run(Case{Skel: s, Pair: []int{a, b}, Order: order})
					}
				}
			}
			rots := len(patterns)
			if np == 0 {
				rots = 1
			}
			for rot := 0; rot < rots; rot++ {
				run(Case{Skel: s, Rot: rot, Order: order})
				if rot%3 == 0 {
					run(Case{Skel: s, Rot: rot, Order: order, Near: true})
				}
			}
		}
		// decode side: per-element byte orders
		ne := s.NElems()
		mixed := func(m []int) {
			atomic.AddInt64(&nmixed, 1)
			run(Case{Skel: s, Rot: 11, Mixed: append([]int{}, m...)})
			if i%50 == 0 {
				r.Sample(10, fmt.Sprintf("%s element orders %v", s, m))
			}
		}
		if ne <= 8 {
			rad := make([]int, ne)
			for j := range rad {
				rad[j] = 2
			}
			enum.Odometer(rad, func(d []int) bool { mixed(d); return true })
		} else {
			for base := 0; base < 2; base++ {
				m := make([]int, ne)
				for j := range m {
					m[j] = base
				}
				mixed(m)
				for a := 0; a < ne; a++ {
					m[a] ^= 1
					mixed(m)
					for b := a + 1; b < ne; b++ {
						m[b] ^= 1
						mixed(m)
						m[b] ^= 1
					}
					m[a] ^= 1
				}
			}
		}
	})
	// large members: counts around the reader's chunk size and well beyond it
	for _, kind := range []geomgen.Kind{geomgen.KLineString, geomgen.KMultiPoint, geomgen.KPolygon, geomgen.KMultiLineString, geomgen.KMultiPolygon, geomgen.KCollection} {
		for _, sz := range []int{31, 32, 33, 255, 256, 257, 300, 511, 512, 513, 700, 1025, 5000, 32768, 40000, 70000} {
			if sz > 5000 && kind != geomgen.KLineString && kind != geomgen.KMultiPoint {
				continue
			}
			for order := 0; order < 2; order++ {
				c := Case{Skel: geomgen.Skel{Kind: kind}, Rot: sz % 12, Order: order, Large: sz}
				n++
				nontrivial++
				if sym, det := check(c); sym != "" {
					if len(det) > 300 {
						det = det[:300]
					}
					r.Violation(fmt.Sprintf("%s|%s|order=%d|large", sym, kind, order), map[string]interface{}{"case": c, "observed": det})
				}
			}
		}
	}
	// many members: wide, deep and tree-shaped geometries
	var many []Case
	for _, kind := range []geomgen.Kind{geomgen.KMultiLineString, geomgen.KPolygon, geomgen.KMultiPolygon, geomgen.KCollection} {
		for _, sz := range []int{31, 32, 33, 40, 64, 65, 100, 257, 1000, 65536, 65537, 70000} {
			if sz > 1000 && kind != geomgen.KCollection {
				continue
			}
			many = append(many, Case{Skel: geomgen.Skel{Kind: kind}, Many: sz, Shape: "wide"})
		}
	}
	for _, sz := range []int{8, 31, 32, 33, 40, 64, 200} {
		many = append(many, Case{Skel: geomgen.Skel{Kind: geomgen.KCollection}, Many: sz, Shape: "deep"})
	}
	for _, d := range []int{3, 4, 5, 6, 7} {
		many = append(many, Case{Skel: geomgen.Skel{Kind: geomgen.KCollection}, Many: d, Shape: "tree"})
	}
	for _, c := range many {
		for order := 0; order < 2; order++ {
			c.Order, c.Rot = order, c.Many%12
			n++
			nontrivial++
			if sym, det := check(c); sym != "" {
				if len(det) > 300 {
					det = det[:300]
				}
				r.Violation(fmt.Sprintf("%s|%s|order=%d|many-%s", sym, c.Skel.Kind, order, c.Shape), map[string]interface{}{"case": c, "observed": det})
			}
		}
	}
	if r.Expired() {
		r.Cap("wall budget expired")
	}
	r.AddStates(n)
	r.AddTransitions(n * 4)
	r.AddEvals(n)
	r.AddNontrivial(nontrivial)
	r.Set("mixed_order_decodes", nmixed)
	r.Finish()
}
