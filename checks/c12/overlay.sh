#!/bin/bash
# writes the -overlay JSON that injects the read-only walk/clone helper into index/rtree
R="${VERIF_REPO:-/repo}"; V="${VERIF_ROOT:-$(cd "$(dirname "$0")/../.." && pwd)}"
cat > "$1" <<J
{"Replace": {"$R/index/rtree/verif_hook.go": "$V/overlays/rtree/verif_hook.go"}}
J
