// C12 — R-tree search answers equal a brute-force scan after any insert/delete
// history (engine E2: explicit-state BFS over the real tree).
package main

import (
	"fmt"
	"math"
	"os"
	"time"

	"verif/checks/rtreemc"
	"verif/mc/report"
)

type regime struct {
	name     string
	nobj     int
	min, max int
	seeds    [][]int
	depth    int
	dups     []int
	spread   int // 0 compact alphabet, 1 spread, 2 compact scaled by 0.1, 3 the 36-point grid, 4 / 5 compact scaled by 2^130 / 2^-34, 6 points only
}

func seedOrders(n int) [][]int {
	// six fixed insertion orders of all n objects (identity, reverse, two
	// strides, two interleavings)
	var o [][]int
	id := make([]int, n)
	for i := range id {
		id[i] = i
	}
	rev := make([]int, n)
	for i := range rev {
		rev[i] = n - 1 - i
	}
	stride := func(k int) []int {
		s := make([]int, n)
		for i := range s {
			s[i] = (i * k) % n
		}
		return s
	}
	inter := make([]int, 0, n)
	for i := 0; i < (n+1)/2; i++ {
		inter = append(inter, i)
		if n-1-i > i {
			inter = append(inter, n-1-i)
		}
	}
	o = append(o, id, rev, stride(5), stride(7), inter)
	inter2 := make([]int, n)
	for i := range inter2 {
		inter2[i] = inter[n-1-i]
	}
	o = append(o, inter2)
	return o
}

func main() {
	tier := "quick"
	if len(os.Args) > 1 {
		tier = os.Args[1]
	}
	if tier == "replay" {
		b, _ := os.ReadFile(os.Args[2])
		fmt.Printf("%s\nReplay: the 'history' field is a plain call sequence on rtree.NewTree; run it with checks/rtreemc (go run ./checks/c11 quick reproduces it deterministically).\n", b)
		return
	}
	r := report.New("C12", tier, "model_checking")
	r.Rule = "E2: breadth-first search over the real *Rtree: transitions Insert(o) (o absent, or present once for the two designated duplicate objects) and Delete(o) (every o, present or absent) on a deep clone; states deduplicated by a canonical serialisation of the whole node structure (entry order, levels, leaf flags, boxes, object ids, parent-link flags), height, size and the model multiset. Regime (i) from the empty tree to closure / depth bound; regime (ii) neighbourhoods of height-3 seed trees. Regime (iii): every operation sequence of length <= 7 (thorough 8) over Insert/Delete of 4 objects (one insertable twice) and NearestNeighbor(p) / NearestNeighbors(2,p) for 2 fixed points *as operations*, explored as a tree without merging states, each query compared with brute force at that point of the history (catches state the key cannot see: caches, aliasing). Oracle in every distinct non-empty state: NearestNeighbor(p) and NearestNeighbors(k,p) for every query point of the half-integer grid over [-1,4]^2 (quick: a 7x7 sub-grid) and every k = 1..size+1: stored objects, multiplicity respected, non-decreasing distances equal to the k smallest brute-force box distances, remaining slots nil. Non-trivial = states with height >= 2."
	r.Assumptions = []string{"object alphabet: 16 boxes/points on the {0..3}^2 grid (coincident, nested, degenerate, value-typed); longer histories and other coordinates are outside the bound"}
	regs := []regime{
		{"full(2,4)x7", 7, 2, 4, nil, 200, nil, 0},
		{"full(2,4)x6+dup", 6, 2, 4, nil, 200, []int{0}, 0},
		{"full(2,5)x7", 7, 2, 5, nil, 200, nil, 0},
		{"full(3,6)x8", 8, 3, 6, nil, 8, []int{0}, 0},
		{"scaled-full(2,4)x6", 6, 2, 4, nil, 200, []int{0}, 2},
		{"scaled(2^130)-full(2,4)x6", 6, 2, 4, nil, 200, []int{0}, 4},
		{"scaled(2^-34)-full(2,4)x6", 6, 2, 4, nil, 200, []int{0}, 5},
		{"points-full(2,4)x7", 7, 2, 4, nil, 200, nil, 6},
		{"seeds(2,4)x13", 13, 2, 4, seedOrders(13), 3, nil, 0},
		{"spread-seeds(2,4)x13", 13, 2, 4, seedOrders(13), 3, nil, 1},
		{"spread-full(2,4)x6", 6, 2, 4, nil, 200, nil, 1},
	}
	if tier == "quick" {
		rtreemc.SetQuickPoints()
	}
	r.Set("query_points", rtreemc.NumQueryPoints())
	if tier == "thorough" {
		regs = []regime{
			{"full(2,4)x7", 7, 2, 4, nil, 200, nil, 0},
			{"full(2,4)x6+dup", 6, 2, 4, nil, 200, []int{0}, 0},
			{"full(2,4)x6+dup5", 6, 2, 4, nil, 200, []int{5}, 0},
			{"full(2,5)x7", 7, 2, 5, nil, 200, nil, 0},
			{"scaled-full(2,4)x6", 6, 2, 4, nil, 200, []int{0}, 2},
			{"scaled(2^130)-full(2,4)x6", 6, 2, 4, nil, 200, []int{0}, 4},
			{"scaled(2^-34)-full(2,4)x6", 6, 2, 4, nil, 200, []int{0}, 5},
			{"points-full(2,4)x7", 7, 2, 4, nil, 200, nil, 6},
			{"points-full(2,4)x6+dup", 6, 2, 4, nil, 200, []int{0}, 6},
			{"points-full(2,5)x8", 8, 2, 5, nil, 200, nil, 6},
			{"spread-full(2,4)x7", 7, 2, 4, nil, 22, []int{0}, 1},
			{"seeds(2,4)x13", 13, 2, 4, seedOrders(13), 4, nil, 0},
			{"spread-seeds(2,4)x13", 13, 2, 4, seedOrders(13), 4, nil, 1},
			{"seeds(3,6)x16", 16, 3, 6, seedOrders(16), 3, nil, 0},
			{"full(3,6)x8", 8, 3, 6, nil, 12, []int{0}, 0},
			{"full(4,8)x9", 9, 4, 8, nil, 7, []int{0}, 0},
			{"full(2,5)x8", 8, 2, 5, nil, 16, nil, 0},
		}
	}
	if r.NViolationSigs() == 0 && !r.Expired() {
		// four-phase histories: grow to full height, shrink until the root chain
		// collapses, regrow through another root split, shrink to nothing
		type ph struct {
			min, max, nobj, norders, n2max int
			points                         bool
		}
		phs := []ph{{2, 3, 13, 4, 4, false}, {2, 4, 13, 4, 4, false}, {2, 4, 13, 4, 4, true}}
		if tier == "thorough" {
			phs = []ph{{2, 3, 13, 6, 5, false}, {2, 3, 13, 6, 5, true}, {2, 4, 13, 6, 5, false}, {2, 4, 13, 6, 5, true}, {2, 5, 16, 6, 5, false}, {3, 6, 16, 6, 6, false}, {3, 5, 16, 6, 6, true}}
		}
		var pd []interface{}
		for _, p := range phs {
			if r.Expired() || r.NViolationSigs() > 0 {
				break
			}
			t0 := time.Now()
			u := rtreemc.NewUniverse(p.nobj, p.min, p.max)
			kind := "boxes"
			if p.points {
				u = rtreemc.NewPointsUniverse(p.nobj, p.min, p.max)
				kind = "points"
			}
			e := &rtreemc.Explorer{U: u, R: r, CheckState: rtreemc.CheckC12}
			ps := e.Phases(seedOrders(p.nobj)[:p.norders], p.n2max)
			r.AddStates(ps.Distinct)
			r.AddTransitions(ps.Ops)
			name := fmt.Sprintf("phases(%d,%d)x%d-%s", p.min, p.max, p.nobj, kind)
			pd = append(pd, map[string]interface{}{"regime": name, "histories": ps.Histories, "states_visited": ps.States, "distinct_states": ps.Distinct, "operations": ps.Ops, "orders": p.norders, "n2max": p.n2max})
			fmt.Printf("  %s: histories=%d visited=%d distinct=%d ops=%d %.0fs\n", name, ps.Histories, ps.States, ps.Distinct, ps.Ops, time.Since(t0).Seconds())
			if r.Expired() {
				r.Cap("wall budget expired in the four-phase regime " + name)
			}
		}
		r.Set("phase_regimes", pd)
	}
	var details []interface{}
	for _, g := range regs {
		if r.Expired() {
			r.Cap("wall budget expired before regime " + g.name)
			break
		}
		var u *rtreemc.Universe
		if g.spread == 0 {
			u = rtreemc.NewUniverse(g.nobj, g.min, g.max, g.dups...)
		} else if g.spread == 1 {
			u = rtreemc.NewSpreadUniverse(g.nobj, g.min, g.max, g.dups...)
		} else if g.spread == 2 {
			u = rtreemc.NewScaledUniverse(g.nobj, g.min, g.max, g.dups...)
		} else if g.spread == 3 {
			u = rtreemc.NewGridUniverse(g.min, g.max)
		} else if g.spread == 6 {
			u = rtreemc.NewPointsUniverse(g.nobj, g.min, g.max, g.dups...)
		} else if g.spread == 4 {
			u = rtreemc.NewScaledUniverseBy(math.Ldexp(1, 130), g.nobj, g.min, g.max, g.dups...)
		} else if g.spread == 5 {
			u = rtreemc.NewScaledUniverseBy(math.Ldexp(1, -34), g.nobj, g.min, g.max, g.dups...)
		}
		e := &rtreemc.Explorer{U: u, R: r, Seeds: g.seeds, CheckState: rtreemc.CheckC12}
		t0 := time.Now()
		st := e.Run(g.depth)
		r.AddStates(st.States)
		r.AddTransitions(st.Transitions)
		d := map[string]interface{}{"regime": g.name, "states": st.States, "transitions": st.Transitions, "max_depth": st.MaxDepth, "closed": st.Closed, "frontiers": st.Frontiers}
		details = append(details, d)
		fmt.Printf("  %s: states=%d transitions=%d max_depth=%d closed=%v %.0fs\n", g.name, st.States, st.Transitions, st.MaxDepth, st.Closed, time.Since(t0).Seconds())
		if !st.Closed {
			if r.Expired() {
				r.Cap("wall budget expired in regime " + g.name)
			} else {
				r.Inc("regimes_depth_bounded", 1)
			}
		}
		r.Sample(8, u.History([]int{}, []uint16{0, 1, 2, 3, 4, uint16(g.nobj), uint16(g.nobj + 2)}))
		if r.NViolationSigs() > 0 {
			break
		}
	}
	if r.NViolationSigs() == 0 && !r.Expired() {
		d := 7
		if tier == "thorough" {
			d = 8
		}
		t0 := time.Now()
		e := &rtreemc.Explorer{U: rtreemc.NewUniverse(4, 2, 4, 0), R: r}
		ss := e.Sequences(d, true)
		r.AddStates(ss.Nodes)
		r.AddTransitions(ss.Nodes)
		r.Set("sequence_nodes", ss.Nodes)
		r.Set("sequence_queries", ss.Queries)
		fmt.Printf("  sequences(2,4)x4+dup depth %d: nodes=%d queries=%d %.0fs\n", d, ss.Nodes, ss.Queries, time.Since(t0).Seconds())
		if r.Expired() {
			r.Cap("wall budget expired in the sequence regime")
		}
	}
	r.Set("regimes", details)

	r.Finish()
}
