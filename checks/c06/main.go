// C06 — GeoJSON encoding round-trips every non-empty finite geometry.
package main

import (
	"bytes"
	"encoding/json"
	"fmt"
	"math"
	"os"
	"strconv"
	"sync/atomic"

	"github.com/ctessum/geom"
	"github.com/ctessum/geom/encoding/geojson"

	"verif/mc/enum"
	"verif/mc/geomgen"
	"verif/mc/report"
)

// Case is one replayable case.
type Case struct {
	Skel   geomgen.Skel
	Rot    int
	Pair   []int
	Bad    int  // slot receiving a non-finite value (-1 none)
	BadV   int  // 0 NaN, 1 +Inf, 2 -Inf
	Closed bool // every ring / line of >= 3 vertices gets its first vertex repeated at the end
	Near   bool `json:",omitempty"` // ... with its X moved by one ulp (an almost closed ring)
	Many   int  `json:",omitempty"` // > 0: a geometry of the skeleton's kind with this many members (vertices for flat kinds)
}

var otherGeom = geom.MultiLineString{{{X: 123456.5, Y: -2}, {X: 3, Y: 4}, {X: 5, Y: 6.25}}, {{X: 7, Y: 8}}}

var otherEnc = []byte(`{"type":"MultiLineString","coordinates":[[[123456.5,-2],[3,4],[5,6.25]],[[7,8]]]}`)

var nonfinite = []float64{math.NaN(), math.Inf(1), math.Inf(-1)}

func build(c Case) geom.Geom {
	i := 0
	pat := geomgen.FinitePatterns
	val := func() float64 {
		var v float64
		if i < len(c.Pair) {
			v = pat[c.Pair[i]]
		} else {
			v = pat[(i+c.Rot)%len(pat)]
		}
		if c.Bad == i {
			v = nonfinite[c.BadV]
		}
		i++
		return v
	}
	if c.Many > 0 {
		pt := func() geom.Point { x := val(); y := val(); return geom.Point{X: x, Y: y} }
		switch c.Skel.Kind {
		case geomgen.KMultiPoint:
			o := make(geom.MultiPoint, c.Many)
			for k := range o {
				o[k] = pt()
			}
			return o
		case geomgen.KLineString:
			o := make(geom.LineString, c.Many)
			for k := range o {
				o[k] = pt()
			}
			return o
		case geomgen.KMultiLineString:
			o := make(geom.MultiLineString, c.Many)
			for k := range o {
				o[k] = geom.LineString{pt(), pt()}
			}
			return o
		case geomgen.KPolygon:
			o := make(geom.Polygon, c.Many)
			for k := range o {
				o[k] = geom.Path{pt(), pt(), pt()}
			}
			return o
		default:
			o := make(geom.MultiPolygon, c.Many)
			for k := range o {
				o[k] = geom.Polygon{{pt(), pt(), pt()}}
			}
			return o
		}
	}
	g := geomgen.Build(c.Skel, func() geom.Point { x := val(); y := val(); return geom.Point{X: x, Y: y} })
	if c.Closed {
		cl := func(p []geom.Point) []geom.Point {
			if len(p) >= 3 {
				q := p[0]
				if c.Near {
					q.X = nearUlp(q.X)
				}
				return append(p, q)
			}
			return p
		}
		switch t := g.(type) {
		case geom.LineString:
			g = geom.LineString(cl(t))
		case geom.MultiLineString:
			for i := range t {
				t[i] = cl(t[i])
			}
		case geom.Polygon:
			for i := range t {
				t[i] = cl(t[i])
			}
		case geom.MultiPolygon:
			for i := range t {
				for j := range t[i] {
					t[i][j] = cl(t[i][j])
				}
			}
		}
	}
	return g
}

func try(f func()) (p string) {
	defer func() {
		if r := recover(); r != nil {
			p = fmt.Sprint(r)
		}
	}()
	f()
	return ""
}

var typeName = map[geomgen.Kind]string{geomgen.KPoint: "Point", geomgen.KMultiPoint: "MultiPoint", geomgen.KLineString: "LineString",
	geomgen.KMultiLineString: "MultiLineString", geomgen.KPolygon: "Polygon", geomgen.KMultiPolygon: "MultiPolygon"}
var depthOf = map[geomgen.Kind]int{geomgen.KPoint: 0, geomgen.KMultiPoint: 1, geomgen.KLineString: 1,
	geomgen.KMultiLineString: 2, geomgen.KPolygon: 2, geomgen.KMultiPolygon: 3}

// nested turns the geometry into the reference nesting of its vertices.
func nested(g geom.Geom) interface{} {
	pts := func(p []geom.Point) []interface{} {
		o := make([]interface{}, len(p))
		for i, q := range p {
			o[i] = q
		}
		return o
	}
	switch t := g.(type) {
	case geom.Point:
		return t
	case geom.MultiPoint:
		return pts(t)
	case geom.LineString:
		return pts(t)
	case geom.MultiLineString:
		o := make([]interface{}, len(t))
		for i, l := range t {
			o[i] = pts(l)
		}
		return o
	case geom.Polygon:
		o := make([]interface{}, len(t))
		for i, l := range t {
			o[i] = pts(l)
		}
		return o
	case geom.MultiPolygon:
		o := make([]interface{}, len(t))
		for i, p := range t {
			o[i] = nested(p)
		}
		return o
	}
	return nil
}

// matchJSON checks that the generic JSON value v nests exactly like ref with
// [x, y] leaves whose literals parse to the coordinates.
func matchJSON(v interface{}, ref interface{}) string {
	if p, ok := ref.(geom.Point); ok {
		a, ok := v.([]interface{})
		if !ok || len(a) != 2 {
			return fmt.Sprintf("position is not a 2-element array: %v", v)
		}
		for k, want := range []float64{p.X, p.Y} {
			n, ok := a[k].(json.Number)
			if !ok {
				return fmt.Sprintf("coordinate is not a number: %v", a[k])
			}
			f, err := strconv.ParseFloat(string(n), 64)
			if err != nil || math.Float64bits(f) != math.Float64bits(want) {
				return fmt.Sprintf("literal %s does not parse to %v (axis %d)", n, want, k)
			}
		}
		return ""
	}
	r := ref.([]interface{})
	a, ok := v.([]interface{})
	if !ok {
		return fmt.Sprintf("expected an array, got %T (%v)", v, v)
	}
	if len(a) != len(r) {
		return fmt.Sprintf("array of %d members, want %d", len(a), len(r))
	}
	for i := range r {
		if d := matchJSON(a[i], r[i]); d != "" {
			return d
		}
	}
	return ""
}

func check(c Case) (string, string) {
	g := build(c)
	var enc []byte
	var err error
	if p := try(func() { enc, err = geojson.Encode(g) }); p != "" {
		return "encode-panic", p
	}
	if c.Bad >= 0 {
		if err == nil {
			return "non-finite-accepted", string(enc)
		}
		return "", ""
	}
	if err != nil {
		return "encode-error", err.Error()
	}
	// independent structural check of the text
	dec := json.NewDecoder(bytes.NewReader(enc))
	dec.UseNumber()
	var doc interface{}
	var e error
	if p := try(func() { e = dec.Decode(&doc) }); p != "" {
		return "returned-bytes-unstable", p
	}
	if e != nil {
		return "text-not-json", e.Error() + ": " + string(enc)
	}
	obj, ok := doc.(map[string]interface{})
	if _, has := obj["coordinates"]; !ok || !has {
		// (further members such as "bbox" are allowed by RFC 7946)
		return "text-shape", string(enc)
	}
	if obj["type"] != typeName[c.Skel.Kind] {
		return "text-type", string(enc)
	}
	if d := matchJSON(obj["coordinates"], nested(g)); d != "" {
		return "text-coordinates", d + ": " + string(enc)
	}
	var got geom.Geom
	if p := try(func() { got, err = geojson.Decode(enc) }); p != "" {
		return "decode-panic", p
	}
	if err != nil {
		return "decode-error", err.Error() + ": " + string(enc)
	}
	if d := geomgen.Diff(g, got, true); d != "" {
		return "roundtrip-differs", d + ": " + string(enc)
	}
	// memory layout: the geometry with its vertex slices cut from one flat
	// buffer encodes to the same text and is not written to
	if c.Pair == nil {
		if sym, det := geomgen.LayoutCheck(g, func(x geom.Geom) string {
			var o string
			if p := try(func() { b, err := geojson.Encode(x); o = fmt.Sprintf("%s %v", b, err) }); p != "" {
				return "panic: " + p
			}
			return o
		}); sym != "" {
			return "encode|" + sym, det
		}
	}
	// the geometry decoded earlier must survive a later Decode call (history)
	if p := try(func() { geojson.Decode(otherEnc) }); p == "" {
		if d := geomgen.Diff(g, got, true); d != "" {
			return "decoded-geometry-changed-by-later-Decode", d
		}
	}
	// the bytes returned earlier must not change when Encode is called again
	// (history: Encode, Encode, then use the first result)
	saved := append([]byte{}, enc...)
	if _, e2 := geojson.Encode(otherGeom); e2 == nil {
		if !bytes.Equal(saved, enc) {
			return "returned-bytes-changed-by-later-Encode", fmt.Sprintf("was %s, now %s", saved, enc)
		}
		var g3 geom.Geom
		var e3 error
		if p := try(func() { g3, e3 = geojson.Decode(enc) }); p != "" || e3 != nil || geomgen.Diff(g, g3, true) != "" {
			return "returned-bytes-changed-by-later-Encode", fmt.Sprintf("%v %v", p, e3)
		}
	}
	// ToGeoJSON / FromGeoJSON object path
	var gj *geojson.Geometry
	if p := try(func() { gj, err = geojson.ToGeoJSON(g) }); p != "" || err != nil {
		return "ToGeoJSON-failed", fmt.Sprint(p, err)
	}
	if gj.Type != typeName[c.Skel.Kind] {
		return "ToGeoJSON-type", gj.Type
	}
	return "", ""
}

func main() {
	tier := "quick"
	if len(os.Args) > 1 {
		tier = os.Args[1]
	}
	if tier == "replay" {
		b, err := os.ReadFile(os.Args[2])
		if err != nil {
			report.Harness("%v", err)
		}
		var f struct{ Case struct{ Case Case } }
		json.Unmarshal(b, &f)
		sym, det := check(f.Case.Case)
		fmt.Printf("geometry %#v\nresult: %q %s\n", build(f.Case.Case), sym, det)
		if sym != "" {
			os.Exit(1)
		}
		return
	}
	r := report.New("C06", tier, "model_checking")
	r.Rule = "E1: every structure tree of the six GeoJSON types with 1..3 members (first member non-empty, later members possibly empty), lengths 0..2(3) x every rotation of 22 finite float64 patterns (full product for points; every ordered pattern pair alternating between neighbouring vertices) : Encode text re-read with json.Number into a generic tree must be {type, coordinates} nested exactly as the type requires with [x,y] literals parsing bit-exactly; Decode(Encode(g)) bit-identical, also with every ring / line of >= 3 vertices closed by repeating its first vertex, exactly and one ulp off; the bytes returned by Encode unchanged by a later Encode call; each single coordinate slot replaced by NaN/+Inf/-Inf must make Encode fail; unsupported types rejected; geometries of 63..5000 members / vertices. Non-trivial = geometries with >= 2 members."
	cfg := geomgen.Config{MaxMembers: 3, Lens: []int{0, 1, 2, 3}, FlatMax: 3, PolyRings: 2}
	if tier == "thorough" {
		cfg = geomgen.Config{MaxMembers: 3, Lens: []int{0, 1, 2, 3}, FlatMax: 4, PolyRings: 3}
	}
	var skels []geomgen.Skel
	for _, s := range geomgen.Simple(cfg) {
		if s.Kind != geomgen.KBounds && geomgen.FirstMemberNonEmpty(s) {
			skels = append(skels, s)
		}
	}
	r.Set("skeletons", len(skels))
	np := len(geomgen.FinitePatterns)
	// pattern indices of the alternating-neighbour family: -0, 5e-324, 0.1, 1e21,
	// -1.5, 100, 0 and +-MaxFloat64 in the quick tier, all patterns in the thorough tier
	altPatterns := []int{0, 1, 3, 5, 9, 10, 13, 17, 18}
	if tier == "thorough" {
		altPatterns = nil
		for i := range geomgen.FinitePatterns {
			altPatterns = append(altPatterns, i)
		}
	}
	var n, nontrivial int64
	// sequential history pass (one goroutine, so any sharing between calls is
	// deterministic): Encode(a), Encode(b), Encode(c); every earlier result
	// must still hold its own text afterwards.
	for i := 0; i+2 < len(skels) && i < 600; i += 3 {
		var encs, saved [3][]byte
		ok := true
		for k := 0; k < 3; k++ {
			var err error
			if p := try(func() { encs[k], err = geojson.Encode(build(Case{Skel: skels[i+k], Rot: k, Bad: -1})) }); p != "" || err != nil {
				ok = false
				break
			}
			saved[k] = append([]byte{}, encs[k]...)
		}
		n++
		if !ok {
			continue
		}
		for k := 0; k < 3; k++ {
			if !bytes.Equal(encs[k], saved[k]) {
				r.Violation("returned-bytes-changed-by-later-Encode|sequence", map[string]interface{}{"case": Case{Skel: skels[i+k], Rot: k, Bad: -1}, "observed": fmt.Sprintf("was %s, now %s", saved[k], encs[k])})
				break
			}
		}
	}
	enum.Parallel(len(skels), r.Expired, func(i int) {
		s := skels[i]
		run := func(c Case) {
			atomic.AddInt64(&n, 1)
			if len(s.Kids) >= 2 || s.N >= 2 {
				atomic.AddInt64(&nontrivial, 1)
			}
			if sym, det := check(c); sym != "" {
				r.Violation(fmt.Sprintf("%s|%s", sym, s.Kind), map[string]interface{}{"case": c, "skeleton": s.String(), "observed": det})
			}
		}
		if s.NPoints() == 1 {
			for a := 0; a < np; a++ {
				for b := 0; b < np; b++ {
					run(Case{Skel: s, Pair: []int{a, b}, Bad: -1})
				}
			}
		}
		for rot := 0; rot < np; rot++ {
			run(Case{Skel: s, Rot: rot, Bad: -1})
			run(Case{Skel: s, Rot: rot, Bad: -1, Closed: true})
			run(Case{Skel: s, Rot: rot, Bad: -1, Closed: true, Near: true})
		}
		// neighbouring vertices: every ordered pattern pair alternating along the
		// vertex list in the same ordinate (x: a,b,a,.. y: b,a,b,..), open and
		// closed, so that e.g. the first and last vertex differ only in the
		// sign of a zero
		if s.NPoints() >= 2 && (tier != "thorough" || s.NPoints() <= 6) {
			for _, a := range altPatterns {
				for _, b := range altPatterns {
					pair := make([]int, 2*s.NPoints())
					for j := range pair {
						if (j/2+j%2)%2 == 0 {
							pair[j] = a
						} else {
							pair[j] = b
						}
					}
					run(Case{Skel: s, Pair: pair, Bad: -1})
				}
			}
		}
		for slot := 0; slot < 2*s.NPoints(); slot++ {
			for v := range nonfinite {
				run(Case{Skel: s, Rot: 3, Bad: slot, BadV: v})
			}
		}
		if i%40 == 0 {
			var enc []byte
			if p := try(func() { enc, _ = geojson.Encode(build(Case{Skel: s, Rot: i % np, Bad: -1})) }); p != "" {
				r.Violation("encode-panic|sample", p)
			}
			r.Sample(10, string(enc))
		}
	})
	// unsupported types
	for _, g := range []geom.Geom{geom.GeometryCollection{geom.Point{X: 1, Y: 2}}, geom.GeometryCollection{}, &geom.Bounds{Min: geom.Point{X: 0, Y: 0}, Max: geom.Point{X: 1, Y: 1}}} {
		var err error
		var enc []byte
		if p := try(func() { enc, err = geojson.Encode(g) }); p != "" {
			r.Violation(fmt.Sprintf("unsupported-type-panic|%T", g), p)
		} else if err == nil {
			r.Violation(fmt.Sprintf("unsupported-type-accepted|%T", g), string(enc))
		}
		n++
	}
	// many members: counts around 64 and beyond (a decoder or encoder may switch
	// strategy with the size)
	for _, kind := range []geomgen.Kind{geomgen.KLineString, geomgen.KMultiLineString, geomgen.KPolygon, geomgen.KMultiPolygon, geomgen.KMultiPoint} {
		for _, sz := range []int{63, 64, 65, 100, 257, 1000, 4095, 4096, 4097, 5000} {
			c := Case{Skel: geomgen.Skel{Kind: kind}, Rot: sz % 19, Many: sz, Bad: -1}
			n++
			nontrivial++
			if sym, det := check(c); sym != "" {
				if len(det) > 300 {
					det = det[:300]
				}
				r.Violation(fmt.Sprintf("%s|%s|many-members", sym, kind), map[string]interface{}{"case": c, "observed": det})
			}
		}
	}
	if r.Expired() {
		r.Cap("wall budget expired")
	}
	r.AddStates(n)
	r.AddTransitions(n * 2)
	r.AddEvals(n)
	r.AddNontrivial(nontrivial)
	r.Finish()
}

// nearUlp is the float64 next to v (upwards, except at the top of the range).
func nearUlp(v float64) float64 {
	if v == math.MaxFloat64 {
		return math.Nextafter(v, 0)
	}
	return math.Nextafter(v, math.Inf(1))
}
