// C03 — area, centroid, length and distance are the true measures of the shape.
// Engine E1: the full reversal x rotation x closing orbit of a catalogue of
// valid polygons / multi-polygons on an integer grid against exact integer
// arithmetic; all short line strings x query points; buffers.
package main

import (
	"fmt"
	"math"
	"os"
	"sync/atomic"

	"github.com/ctessum/geom"
	"github.com/ctessum/geom/op"

	"verif/mc/enum"
	"verif/mc/geomgen"
	"verif/mc/report"
)

type pt struct{ X, Y int64 }
type ring []pt

func rect(x0, y0, x1, y1 int64) ring { return ring{{x0, y0}, {x1, y0}, {x1, y1}, {x0, y1}} }

func area2(r ring) int64 { // doubled signed area, CCW positive
	var a int64
	for i := range r {
		j := (i + 1) % len(r)
		a += r[i].X*r[j].Y - r[j].X*r[i].Y
	}
	return a
}

// centroid6 returns (6*A*cx, 6*A*cy) with A the signed area, as integers.
func centroid6(r ring) (int64, int64) {
	var cx, cy int64
	for i := range r {
		j := (i + 1) % len(r)
		c := r[i].X*r[j].Y - r[j].X*r[i].Y
		cx += (r[i].X + r[j].X) * c
		cy += (r[i].Y + r[j].Y) * c
	}
	return cx, cy
}

func abs64(a int64) int64 {
	if a < 0 {
		return -a
	}
	return a
}

func cross(o, a, b pt) int64 { return (a.X-o.X)*(b.Y-o.Y) - (a.Y-o.Y)*(b.X-o.X) }

func sgn(a int64) int {
	if a > 0 {
		return 1
	}
	if a < 0 {
		return -1
	}
	return 0
}

func segsMeet(a, b, c, d pt) bool { // closed segments share a point
	d1, d2 := sgn(cross(a, b, c)), sgn(cross(a, b, d))
	d3, d4 := sgn(cross(c, d, a)), sgn(cross(c, d, b))
	if d1*d2 < 0 && d3*d4 < 0 {
		return true
	}
	on := func(p, q, r pt) bool {
		return cross(p, q, r) == 0 && min(p.X, q.X) <= r.X && r.X <= max(p.X, q.X) && min(p.Y, q.Y) <= r.Y && r.Y <= max(p.Y, q.Y)
	}
	return on(a, b, c) || on(a, b, d) || on(c, d, a) || on(c, d, b)
}

func strictlyInside(r ring, p pt) bool {
	in := false
	for i := range r {
		a, b := r[i], r[(i+1)%len(r)]
		if cross(a, b, p) == 0 && min(a.X, b.X) <= p.X && p.X <= max(a.X, b.X) && min(a.Y, b.Y) <= p.Y && p.Y <= max(a.Y, b.Y) {
			return false
		}
		if (a.Y > p.Y) != (b.Y > p.Y) {
			l := (p.X - a.X) * (b.Y - a.Y)
			rr := (p.Y - a.Y) * (b.X - a.X)
			if (b.Y-a.Y > 0 && l < rr) || (b.Y-a.Y < 0 && l > rr) {
				in = !in
			}
		}
	}
	return in
}

func ringsDisjoint(a, b ring) bool {
	for i := range a {
		for j := range b {
			if segsMeet(a[i], a[(i+1)%len(a)], b[j], b[(j+1)%len(b)]) {
				return false
			}
		}
	}
	return true
}

// poly is a valid polygon: shell CCW first, holes (CCW spelled) after.
type poly []ring

func catalogue() []poly {
	shells := []ring{
		rect(0, 0, 12, 12),
		{{0, 0}, {12, 0}, {0, 12}},
		{{0, 0}, {12, 0}, {12, 4}, {4, 4}, {4, 12}, {0, 12}},
		{{0, 0}, {12, 0}, {8, 6}, {12, 12}, {0, 12}},
		{{2, 0}, {10, 0}, {12, 6}, {6, 12}, {0, 6}},
		rect(0, 0, 12, 1),
		{{0, 0}, {12, 0}, {12, 12}, {9, 12}, {9, 3}, {3, 3}, {3, 12}, {0, 12}}, // U shape
	}
	holes := []ring{
		rect(1, 1, 3, 3), {{1, 5}, {3, 5}, {1, 8}}, rect(5, 1, 7, 2), {{2, 9}, {3, 9}, {2, 11}},
		rect(1, 1, 2, 11), {{5, 4}, {7, 5}, {6, 7}, {4, 6}}, rect(10, 1, 11, 11),
	}
	var out []poly
	// a C-shaped hole whose bounding box contains a second hole sitting in its mouth
	cHole := ring{{2, 2}, {8, 2}, {8, 4}, {4, 4}, {4, 8}, {8, 8}, {8, 10}, {2, 10}}
	out = append(out, poly{rect(0, 0, 12, 12), cHole, rect(5, 5, 7, 7)}, poly{rect(0, 0, 12, 12), rect(5, 5, 7, 7), cHole}, poly{rect(0, 0, 12, 12), cHole})
	for _, s := range shells {
		var ok []ring
		for _, h := range holes {
			good := ringsDisjoint(s, h)
			for _, v := range h {
				if !strictlyInside(s, v) {
					good = false
				}
			}
			if good {
				ok = append(ok, h)
			}
		}
		out = append(out, poly{s})
		for i := range ok {
			out = append(out, poly{s, ok[i]})
			for j := i + 1; j < len(ok); j++ {
				if ringsDisjoint(ok[i], ok[j]) && !strictlyInside(ok[i], ok[j][0]) && !strictlyInside(ok[j], ok[i][0]) {
					out = append(out, poly{s, ok[i], ok[j]})
				}
			}
		}
	}
	return out
}

// trueArea2 is the doubled area of shell minus holes; trueCentroid the exact
// area-weighted centroid as (num_x, num_y, den) with cx = num_x/den.
func trueArea2(p poly) int64 {
	a := abs64(area2(p[0]))
	for _, h := range p[1:] {
		a -= abs64(area2(h))
	}
	return a
}

func trueCentroid(ps []poly) (float64, float64) {
	var sx, sy, sa int64 // sums of 6*A*c (signed as shell - holes) and 2*A
	for _, p := range ps {
		for i, r := range p {
			cx, cy := centroid6(r)
			if area2(r) < 0 {
				cx, cy = -cx, -cy
			}
			if i > 0 {
				cx, cy = -cx, -cy
			}
			sx += cx
			sy += cy
		}
		sa += trueArea2(p)
	}
	return float64(sx) / float64(3*sa), float64(sy) / float64(3*sa)
}

// spelling of one ring: reversed?, rotation, closed?
type spell struct {
	rev    bool
	rot    int
	closed bool
}

// affine maps with non-representable coefficients for the float family
var affines = [][6]float64{
	{0.8660254037844387, -0.5, 0.5, 0.8660254037844387, 0.1, -0.3},
	{1.7, 0.3333333333333333, -0.45, 0.9, 1234.5678, -77.7},
	{-0.7071067811865476, 0.7071067811865476, 0.7071067811865476, 0.7071067811865476, 1e-3, 1e3},
	// an integer translation far from the origin (the last map; exact, so the
	// area must stay exact; products of two coordinates exceed 2^53)
	{1, 0, 0, 1, 1000000007, 123456789},
	// an exact scaling by 2^-30: rings of 1e-8, areas of 1e-17 (far below any
	// absolute "degenerate" threshold); every tolerance is relative to the scale
	{math.Ldexp(1, -30), 0, 0, math.Ldexp(1, -30), 0, 0},
}

// farTranslation is the index (1-based) of the translation map: only areas are
// compared under it (the centroid sums lose digits legitimately there).
var farTranslation = len(affines) - 1

// tinyScale is the index (1-based) of the exact scaling by 2^-30.
var tinyScale = len(affines)

func affPt(k int, x, y float64) (float64, float64) {
	if k == 0 {
		return x, y
	}
	a := affines[k-1]
	return a[0]*x + a[1]*y + a[4], a[2]*x + a[3]*y + a[5]
}

func affDet(k int) float64 {
	if k == 0 {
		return 1
	}
	a := affines[k-1]
	return a[0]*a[3] - a[1]*a[2]
}

func spellRing(r ring, s spell, dx int64) geom.Path {
	return spellRingInto(nil, r, s, dx)
}

// spellRingInto writes the spelling into buf's storage when buf has room.
func spellRingInto(buf geom.Path, r ring, s spell, dx int64) geom.Path {
	n := len(r)
	out := buf[:0]
	if cap(buf) < n+1 {
		out = make(geom.Path, 0, n+1)
	}
	for i := 0; i < n; i++ {
		k := (i + s.rot) % n
		if s.rev {
			k = (n - 1 - i + s.rot + n) % n
		}
		out = append(out, geom.Point{X: float64(r[k].X + dx), Y: float64(r[k].Y)})
	}
	if s.closed {
		out = append(out, out[0])
	}
	return out
}

func allSpells(n int) []spell {
	var o []spell
	for _, rev := range []bool{false, true} {
		for rot := 0; rot < n; rot++ {
			for _, cl := range []bool{true, false} {
				o = append(o, spell{rev, rot, cl})
			}
		}
	}
	return o
}

func try(f func()) (p string) {
	defer func() {
		if r := recover(); r != nil {
			p = fmt.Sprint(r)
		}
	}()
	f()
	return ""
}

func close(a, b, scale float64) bool { return math.Abs(a-b) <= 1e-9*math.Max(1, scale) }

var rep *report.Run
var nEval, nNontrivial int64
var tier string

// reuseStore, when set (sequential pass only), makes judge build every
// spelling in ONE multi-polygon value whose slices are rewritten in place.
var reuseStore *struct {
	mp   geom.MultiPolygon
	bufs [][]geom.Path
}

// judge evaluates one spelling of a multi-polygon (members at x offsets).
func judge(ps []poly, sp [][]spell, asMulti bool, aff int) {
	var mp geom.MultiPolygon
	allClosed, alternating := true, true
	var dir0 int
	if st := reuseStore; st != nil && st.mp == nil {
		st.mp = make(geom.MultiPolygon, len(ps))
		st.bufs = make([][]geom.Path, len(ps))
		for m, p := range ps {
			st.mp[m] = make(geom.Polygon, 0, len(p))
			st.bufs[m] = make([]geom.Path, len(p))
			for i, r := range p {
				st.bufs[m][i] = make(geom.Path, 0, len(r)+1)
			}
		}
		mp = st.mp[:0]
	} else if st != nil {
		mp = st.mp[:0]
	}
	for m, p := range ps {
		var g geom.Polygon
		if reuseStore != nil {
			g = reuseStore.mp[:len(ps)][m][:0]
		}
		for i, r := range p {
			s := sp[m][i]
			if reuseStore != nil {
				g = append(g, spellRingInto(reuseStore.bufs[m][i], r, s, int64(20*m)))
			} else {
				g = append(g, spellRing(r, s, int64(20*m)))
			}
			if !s.closed {
				allClosed = false
			}
			// direction of this spelled ring: base is whatever area2 says
			d := sgn(area2(r))
			if s.rev {
				d = -d
			}
			want := d
			if i > 0 {
				want = -d
			}
			if m == 0 && i == 0 {
				dir0 = d
			}
			if want != dir0 {
				alternating = false
			}
		}
		mp = append(mp, g)
	}
	if aff > 0 {
		for _, g := range mp {
			for _, r := range g {
				for i := range r {
					r[i].X, r[i].Y = affPt(aff, r[i].X, r[i].Y)
				}
			}
		}
		// (a reflection reverses every winding, so "alternating" is preserved)
	}
	var a2 int64
	for _, p := range ps {
		a2 += trueArea2(p)
	}
	wantA := float64(a2) / 2 * math.Abs(affDet(aff))
	cx, cy := trueCentroid(ps)
	if len(ps) > 1 {
		// members are offset along x
		var sx, sa float64
		for m, p := range ps {
			mx, _ := trueCentroid([]poly{p})
			a := float64(trueArea2(p))
			sx += (mx + float64(20*m)) * a
			sa += a
		}
		cx = sx / sa
	}
	cx, cy = affPt(aff, cx, cy)
	desc := func() map[string]interface{} {
		return map[string]interface{}{"geometry": fmt.Sprintf("%v", mp), "true_area": wantA, "true_centroid": []float64{cx, cy}}
	}
	viol := func(sig string, got interface{}) {
		d := desc()
		d["got"] = fmt.Sprint(got)
		rep.Violation(sig, d)
	}
	atomic.AddInt64(&nEval, 1)
	if !alternating || !allClosed {
		atomic.AddInt64(&nNontrivial, 1)
	}
	var pg geom.Polygonal = mp
	kind := "MultiPolygon"
	if !asMulti {
		pg = mp[0]
		kind = "Polygon"
	}
	// memory layout: the same rings cut out of one flat vertex buffer (spare
	// capacity reaching into the next ring) must give the same measures and
	// must not be written to
	if n := atomic.LoadInt64(&nEval); aff == 0 && ((!allClosed && (tier != "thorough" || n%16 == 0)) || n%8 == 0) {
		sym, det := geomgen.LayoutCheck(pg.(geom.Geom), func(x geom.Geom) string {
			var out string
			if p := try(func() {
				xp := x.(geom.Polygonal)
				out = fmt.Sprint(xp.Area(), *xp.Bounds(), xp.Len(), op.Area(x))
				if allClosed {
					// (Centroid is specified for closed rings only; on an
					// unclosed ring Polygon.Centroid appends the closing
					// vertex to the caller's slice - outside this property)
					out += fmt.Sprint(xp.Centroid())
				}
			}); p != "" {
				return "panic: " + p
			}
			return out
		})
		if sym != "" {
			viol(kind+"|"+sym, det)
		}
	}
	unit := 1.0
	if aff == tinyScale {
		unit = math.Ldexp(1, -30)
	}
	// (shadows the package-level close: lengths - the centroid calls pass 2000 -
	// are relative to the scale, areas to its square)
	close := func(a, b, scale float64) bool {
		if scale == 2000 {
			return math.Abs(a-b) <= 1e-9*2000*unit
		}
		return math.Abs(a-b) <= 1e-9*math.Max(unit*unit, scale)
	}
	var got float64
	if p := try(func() { got = pg.Area() }); p != "" {
		viol(kind+".Area|panic", p)
	} else if !close(got, wantA, wantA) {
		viol(kind+".Area|wrong", got)
	}
	if alternating {
		var g geom.Geom = mp
		if !asMulti {
			g = mp[0]
		}
		if got := op.Area(g); !close(got, wantA, wantA) {
			viol("op.Area|"+kind+"|wrong", got)
		}
	}
	if allClosed && aff != farTranslation {
		b := pg.Bounds()
		inBox := func(c geom.Point) bool {
			return c.X >= b.Min.X-1e-9*unit && c.X <= b.Max.X+1e-9*unit && c.Y >= b.Min.Y-1e-9*unit && c.Y <= b.Max.Y+1e-9*unit
		}
		if asMulti {
			var c geom.Point
			if p := try(func() { c = pg.Centroid() }); p != "" {
				viol("MultiPolygon.Centroid|panic", p)
			} else if !close(c.X, cx, 2000) || !close(c.Y, cy, 2000) {
				s := "wrong"
				if !inBox(c) {
					s = "outside-bounding-box"
				}
				viol("MultiPolygon.Centroid|"+s, c)
			}
		} else if alternating {
			var c geom.Point
			if p := try(func() { c = pg.Centroid() }); p != "" {
				viol("Polygon.Centroid|panic", p)
			} else if !close(c.X, cx, 2000) || !close(c.Y, cy, 2000) {
				viol("Polygon.Centroid|wrong", c)
			}
			oc, err := op.Centroid(mp[0])
			if err != nil || !close(oc.X, cx, 2000) || !close(oc.Y, cy, 2000) {
				viol("op.Centroid|wrong", fmt.Sprint(oc, err))
			}
		}
	}
}

func orbit(ps []poly, asMulti bool, maxVary int) {
	// rings flattened
	type ref struct{ m, i int }
	var rs []ref
	for m, p := range ps {
		for i := range p {
			rs = append(rs, ref{m, i})
		}
	}
	base := make([][]spell, len(ps))
	for m, p := range ps {
		base[m] = make([]spell, len(p))
		for i := range p {
			// canonical: closed, shell as given (CCW), holes reversed (CW)
			base[m][i] = spell{rev: i > 0, rot: 0, closed: true}
		}
	}
	cp := func() [][]spell {
		o := make([][]spell, len(base))
		for m := range base {
			o[m] = append([]spell{}, base[m]...)
		}
		return o
	}
	if len(rs) <= maxVary {
		// full product
		rad := make([]int, len(rs))
		opts := make([][]spell, len(rs))
		for k, r := range rs {
			opts[k] = allSpells(len(ps[r.m][r.i]))
			rad[k] = len(opts[k])
		}
		enum.Odometer(rad, func(d []int) bool {
			sp := cp()
			for k, r := range rs {
				sp[r.m][r.i] = opts[k][d[k]]
			}
			judge(ps, sp, asMulti, 0)
			if d[0]%5 == 0 {
				for k := 1; k <= len(affines); k++ {
					judge(ps, sp, asMulti, k)
				}
			}
			return true
		})
		return
	}
	// vary every subset of maxVary rings fully, the others canonical, plus the
	// whole-geometry reversal of each
	var subsets func(start int, cur []int)
	subsets = func(start int, cur []int) {
		if len(cur) == maxVary {
			rad := make([]int, len(cur))
			opts := make([][]spell, len(cur))
			for k, ri := range cur {
				r := rs[ri]
				opts[k] = allSpells(len(ps[r.m][r.i]))
				rad[k] = len(opts[k])
			}
			enum.Odometer(rad, func(d []int) bool {
				for _, flip := range []bool{false, true} {
					sp := cp()
					if flip {
						for m := range sp {
							for i := range sp[m] {
								sp[m][i].rev = !sp[m][i].rev
							}
						}
					}
					for k, ri := range cur {
						r := rs[ri]
						sp[r.m][r.i] = opts[k][d[k]]
					}
					judge(ps, sp, asMulti, 0)
					if d[0]%7 == 0 {
						judge(ps, sp, asMulti, 1+d[0]%3)
					}
				}
				return true
			})
			return
		}
		for i := start; i < len(rs); i++ {
			subsets(i+1, append(append([]int{}, cur...), i))
		}
	}
	subsets(0, nil)
}

func main() {
	tier = "quick"
	if len(os.Args) > 1 {
		tier = os.Args[1]
	}
	if tier == "replay" {
		b, _ := os.ReadFile(os.Args[2])
		fmt.Printf("%s\nThe case file holds the exact geometry literal and the true values; paste it into a Go program calling Area/Centroid to reproduce.\n", b)
		return
	}
	rep = report.New("C03", tier, "model_checking")
	rep.Rule = "E1: catalogue of valid polygons on a 12x12 integer grid (7 shells x all valid subsets of <=2 disjoint holes out of 7) under the FULL orbit of per-ring reversal x start rotation x closed/unclosed spelling (polygons), multi-polygons of 1-3 disjoint members with every subset of <=2(3) rings varied over their full orbit plus whole-geometry reversal; Area for every spelling, Polygon.Centroid/op.Centroid/op.Area on alternately wound spellings, MultiPolygon.Centroid on every closed spelling; all line strings of <=4 points over {0..2}^2 x 49 half-integer query points for Length/Distance/op.Length; lines over five far-apart points x query points 1e-6..1e-1 beside their segments; Point.Buffer for radius {0,.5,1,1e6} x segments 3..16, 64..65537 x 3 centres. every fifth spelling again under 3 affine maps with non-representable coefficients under the integer translation by (1000000007, 123456789) (areas only) and under the exact scaling by 2^-30 (tolerances relative to the scale) (area scales by |det|, the centroid maps affinely; relative tolerance 1e-9). A 64-gon and a 100-gon with a 33-gon hole under their full orbits. The full orbit of every fifth polygon again on one value rewritten in place (history), and every unclosed / every 8th spelling also cut from one flat vertex buffer (layout). Oracle: exact integer shoelace / centroid sums, exact squared distances. Non-trivial = spellings that are not the canonical alternately wound closed one."
	cat := catalogue()
	rep.Set("catalogue_polygons", len(cat))
	maxVary := 2
	if tier == "thorough" {
		maxVary = 3
	}
	// polygons: full orbit (<= 3 rings)
	enum.Parallel(len(cat), rep.Expired, func(i int) {
		orbit([]poly{cat[i]}, false, 3)
		orbit([]poly{cat[i]}, true, 3)
		if i%5 == 0 {
			rep.Sample(8, fmt.Sprintf("polygon %v full orbit", cat[i]))
		}
	})
	// many vertices: a 64-gon and a 100-gon with a 33-gon hole (integer vertices,
	// full orbit incl. every start rotation)
	{
		gon := func(n int, cx, cy, r float64) ring {
			var o ring
			for k := 0; k < n; k++ {
				a := 2 * math.Pi * (float64(k) + 0.25) / float64(n)
				o = append(o, pt{int64(math.Round(cx + r*math.Cos(a))), int64(math.Round(cy + r*math.Sin(a)))})
			}
			return o
		}
		big := []poly{{gon(64, 300, 300, 290)}, {gon(100, 310, 290, 295), gon(33, 300, 300, 120)}}
		enum.Parallel(2*len(big), rep.Expired, func(i int) { orbit([]poly{big[i/2]}, i%2 == 1, 3) })
	}
	// history on one value: the full orbit of every fifth polygon again, in one
	// goroutine, on ONE polygon / multi-polygon value whose ring slices are
	// rewritten (and re-sliced) in place from spelling to spelling: an answer may
	// depend on the current coordinates only
	for i := 0; i < len(cat) && !rep.Expired(); i += 5 {
		for _, asMulti := range []bool{false, true} {
			reuseStore = &struct {
				mp   geom.MultiPolygon
				bufs [][]geom.Path
			}{}
			orbit([]poly{cat[i]}, asMulti, 3)
			reuseStore = nil
		}
	}
	// multi-polygons of 2 and 3 members from a sub-catalogue
	var sub []poly
	for i := 0; i < len(cat); i += len(cat)/6 + 1 {
		sub = append(sub, cat[i])
	}
	sub = append(sub, cat[len(cat)-1], cat[2])
	var multis [][]poly
	for _, a := range sub {
		for _, b := range sub {
			multis = append(multis, []poly{a, b})
			if tier == "thorough" {
				for _, c := range sub {
					multis = append(multis, []poly{a, b, c})
				}
			}
		}
	}
	if tier == "quick" {
		for i := 0; i < len(sub); i++ {
			multis = append(multis, []poly{sub[i], sub[(i+1)%len(sub)], sub[(i+2)%len(sub)]})
		}
	}
	rep.Set("multi_polygons", len(multis))
	enum.Parallel(len(multis), rep.Expired, func(i int) { orbit(multis[i], true, maxVary) })

	// boxes
	for x0 := 0.0; x0 < 3; x0++ {
		for x1 := x0; x1 < 4; x1++ {
			b := &geom.Bounds{Min: geom.Point{X: x0, Y: 1}, Max: geom.Point{X: x1, Y: 3.5}}
			nEval++
			if !close(b.Area(), (x1-x0)*2.5, 1) || b.Centroid() != (geom.Point{X: (x0 + x1) / 2, Y: 2.25}) {
				rep.Violation("Bounds.Area/Centroid|wrong", fmt.Sprint(*b))
			}
		}
	}

	// line strings
	var grid []geom.Point
	for x := 0.0; x <= 2; x++ {
		for y := 0.0; y <= 2; y++ {
			grid = append(grid, geom.Point{X: x, Y: y})
		}
	}
	var qs []geom.Point
	for x := -0.5; x <= 2.5; x += 0.5 {
		for y := -0.5; y <= 2.5; y += 0.5 {
			qs = append(qs, geom.Point{X: x, Y: y})
		}
	}
	segDist := func(p, a, b geom.Point) float64 {
		// exact in rationals of small halves: do it in float with integers scaled by 2 (exact)
		px, py, ax, ay, bx, by := 2*p.X, 2*p.Y, 2*a.X, 2*a.Y, 2*b.X, 2*b.Y
		dx, dy := bx-ax, by-ay
		l2 := dx*dx + dy*dy
		t := (px-ax)*dx + (py-ay)*dy
		var d2 float64
		switch {
		case l2 == 0 || t <= 0:
			d2 = (px-ax)*(px-ax) + (py-ay)*(py-ay)
		case t >= l2:
			d2 = (px-bx)*(px-bx) + (py-by)*(py-by)
		default:
			c := dx*(py-ay) - dy*(px-ax)
			d2 = c * c / l2
		}
		return math.Sqrt(d2) / 2
	}
	maxLen := 4
	var nl int64
	for l := 0; l <= maxLen; l++ {
		enum.Sequences(len(grid), l, func(s []int) bool {
			ls := make(geom.LineString, len(s))
			for i, k := range s {
				ls[i] = grid[k]
			}
			nl++
			wantLen := 0.0
			for i := 0; i+1 < len(ls); i++ {
				dx, dy := ls[i+1].X-ls[i].X, ls[i+1].Y-ls[i].Y
				wantLen += math.Sqrt(dx*dx + dy*dy)
			}
			if got := ls.Length(); !close(got, wantLen, 1) {
				rep.Violation("LineString.Length|wrong", map[string]interface{}{"line": fmt.Sprint(ls), "got": got, "want": wantLen})
			}
			if got := op.Length(ls); !close(got, wantLen, 1) {
				rep.Violation("op.Length|wrong", map[string]interface{}{"line": fmt.Sprint(ls), "got": got, "want": wantLen})
			}
			ml := geom.MultiLineString{ls[:len(ls)/2], ls[len(ls)/2:]}
			wantML := 0.0
			for _, m := range ml {
				for i := 0; i+1 < len(m); i++ {
					wantML += math.Hypot(m[i+1].X-m[i].X, m[i+1].Y-m[i].Y)
				}
			}
			if got := ml.Length(); !close(got, wantML, 1) {
				rep.Violation("MultiLineString.Length|wrong", map[string]interface{}{"line": fmt.Sprint(ml), "got": got, "want": wantML})
			}
			for _, q := range qs {
				want := math.Inf(1)
				for i := 0; i+1 < len(ls); i++ {
					want = math.Min(want, segDist(q, ls[i], ls[i+1]))
				}
				got := ls.Distance(q)
				nEval++
				if !(got == want || close(got, want, 1)) {
					rep.Violation("LineString.Distance|wrong", map[string]interface{}{"line": fmt.Sprint(ls), "p": fmt.Sprint(q), "got": got, "want": want})
				}
				wantM := math.Inf(1)
				for _, m := range ml {
					for i := 0; i+1 < len(m); i++ {
						wantM = math.Min(wantM, segDist(q, m[i], m[i+1]))
					}
				}
				gotM := ml.Distance(q)
				if !(gotM == wantM || close(gotM, wantM, 1)) {
					rep.Violation("MultiLineString.Distance|wrong", map[string]interface{}{"line": fmt.Sprint(ml), "p": fmt.Sprint(q), "got": gotM, "want": wantM})
				}
			}
			return true
		})
	}
	rep.Set("line_strings", nl)

	// points very close to long segments: every line of 2 and 3 vertices over
	// five far-apart points x query points 1e-1 .. 1e-6 beside each segment (and
	// beyond its ends); the cross-product form of the distance is well
	// conditioned there, a difference of squares is not
	{
		far := []geom.Point{{X: 0, Y: 0}, {X: 600, Y: 0}, {X: 613, Y: 301}, {X: -20, Y: 777}, {X: 1044.5, Y: -3.25}}
		var lines []geom.LineString
		for a := range far {
			for b := range far {
				if a == b {
					continue
				}
				lines = append(lines, geom.LineString{far[a], far[b]})
				for c := range far {
					if c != a && c != b {
						lines = append(lines, geom.LineString{far[a], far[b], far[c]})
					}
				}
			}
		}
		for _, ls := range lines {
			for i := 0; i+1 < len(ls); i++ {
				a, b := ls[i], ls[i+1]
				l := math.Hypot(b.X-a.X, b.Y-a.Y)
				ux, uy := (b.X-a.X)/l, (b.Y-a.Y)/l
				for _, t := range []float64{-0.1, 0.003, 0.37, 0.5, 0.91, 1.02} {
					for _, off := range []float64{0, 1e-6, -1e-4, 1e-3, -1e-1} {
						q := geom.Point{X: a.X + t*l*ux - off*uy, Y: a.Y + t*l*uy + off*ux}
						want := math.Inf(1)
						for k := 0; k+1 < len(ls); k++ {
							want = math.Min(want, segDist(q, ls[k], ls[k+1]))
						}
						got := ls.Distance(q)
						nEval++
						if !(math.Abs(got-want) <= 1e-9*want+1e-11) {
							rep.Violation("LineString.Distance|wrong|near-long-segment", map[string]interface{}{"line": fmt.Sprint(ls), "p": fmt.Sprint(q), "got": got, "want": want})
						}
					}
				}
			}
		}
	}

	// buffers
	for _, c := range []geom.Point{{X: 0, Y: 0}, {X: 3.25, Y: -7.5}, {X: 1e6, Y: 1e-3}} {
		for _, rad := range []float64{0, 0.5, 1, 1e6} {
			segs := []int{64, 100, 360, 720, 721, 1000, 1024, 4096, 65537}
			for seg := 3; seg <= 16; seg++ {
				segs = append(segs, seg)
			}
			for _, seg := range segs {
				nEval++
				var pg geom.Polygon
				if p := try(func() { pg = c.Buffer(rad, seg) }); p != "" {
					rep.Violation("Buffer|panic", fmt.Sprint(c, rad, seg, p))
					continue
				}
				if len(pg) != 1 || len(pg[0]) != seg {
					rep.Violation("Buffer|vertex-count", fmt.Sprint(c, rad, seg, pg))
					continue
				}
				for i, v := range pg[0] {
					th := 2 * math.Pi * float64(i) / float64(seg)
					wx, wy := c.X+rad*math.Cos(th), c.Y+rad*math.Sin(th)
					if !close(v.X, wx, rad+math.Abs(c.X)) || !close(v.Y, wy, rad+math.Abs(c.Y)) {
						rep.Violation("Buffer|vertex-off-circle", fmt.Sprint(c, rad, seg, i, v))
					}
				}
			}
		}
		for _, bad := range [][2]float64{{1, 2}, {1, 0}, {-1, 5}, {1, -3}} {
			if p := try(func() { c.Buffer(bad[0], int(bad[1])) }); p == "" {
				rep.Violation("Buffer|documented-panic-missing", fmt.Sprint(bad))
			}
		}
	}
	if rep.Expired() {
		rep.Cap("wall budget expired")
	}
	rep.AddStates(nEval)
	rep.AddTransitions(nEval * 2)
	rep.AddEvals(nEval)
	rep.AddNontrivial(nNontrivial)
	rep.Finish()
}
