// C16 — shapefile write followed by read returns the same geometries and
// attributes. Engine E1: record sequences x shapes x attribute edge values x
// both APIs, each written to a private temporary directory and read back.
package main

import (
	"fmt"
	"math"
	"os"
	"path/filepath"
	"strconv"
	"strings"
	"sync/atomic"

	"github.com/ctessum/geom"
	"github.com/ctessum/geom/encoding/shp"
	gshp "github.com/jonas-p/go-shp"

	"verif/mc/enum"
	"verif/mc/geomgen"
	"verif/mc/report"
)

// attribute edge values
var ints = []int{0, -1, 999999999, -999999999, 9999999999, 42}
var strs = []string{"", "a", strings.Repeat("x", 50), "héllo wörld ✓", "inner  spaces here", "Z", " lead", "trail ",
	"caf\xe9", "\xff\xfe\x80", "ab\xe2\x82", // these three are not valid UTF-8 (Latin-1, raw high bytes, a truncated sequence)
	"tab\t", "\tlead", "line\n", "cr\r", "nb\u00a0", "\u00a0nb", "em\u2003"} // white space other than the blank at either end
var floats = []float64{0, -1.5, 1.0 / 3.0, 1e10, 123456789.1234567891, -0.0000000001,
	1e18, 9223372036854775808, -1e17} // the last three fill the 30-character field exactly (19 digits; 18 digits and a sign)

type attrs struct {
	I int
	S string
	F float64
}

func attrsFor(k int) attrs {
	return attrs{ints[k%len(ints)], strs[k%len(strs)], floats[k%len(floats)]}
}

// record archetypes (struct API). Tags and names exercise case-insensitive matching.
type recPoint struct {
	geom.Point
	I int     `shp:"ival"`
	S string  `shp:"SVal"`
	F float64 // matched by field name
}
type recPointSL struct {
	geom.Point
	F float64
	I int    `shp:"ival"`
	S string `shp:"SVal"` // the string attribute is the last field of the record
}
type recMultiPoint struct {
	geom.MultiPoint
	I int    `shp:"ival"`
	S string `shp:"SVal"`
	F float64
}
type recLine struct {
	geom.LineString
	I int    `shp:"ival"`
	S string `shp:"SVal"`
	F float64
}
type recMultiLine struct {
	geom.MultiLineString
	I int    `shp:"ival"`
	S string `shp:"SVal"`
	F float64
}
type recPolygon struct {
	geom.Polygon
	I int    `shp:"ival"`
	S string `shp:"SVal"`
	F float64
}
type recBounds struct {
	*geom.Bounds
	I int    `shp:"ival"`
	S string `shp:"SVal"`
	F float64
}

// the geometry as the last field of the record, behind the attributes
type recPointGL struct {
	I int    `shp:"ival"`
	S string `shp:"SVal"`
	F float64
	geom.Point
}
type recMultiPointGL struct {
	I int    `shp:"ival"`
	S string `shp:"SVal"`
	F float64
	geom.MultiPoint
}
type recLineGL struct {
	I int    `shp:"ival"`
	S string `shp:"SVal"`
	F float64
	geom.LineString
}
type recMultiLineGL struct {
	I int    `shp:"ival"`
	S string `shp:"SVal"`
	F float64
	geom.MultiLineString
}
type recPolygonGL struct {
	I int    `shp:"ival"`
	S string `shp:"SVal"`
	F float64
	geom.Polygon
}
type recBoundsGL struct {
	I int    `shp:"ival"`
	S string `shp:"SVal"`
	F float64
	*geom.Bounds
}

// attribute names of 11 bytes, the most a DBF field name holds
type recPointLong struct {
	geom.Point
	Description int
	StationName string  `shp:"station_idx"`
	Temperature float64 `shp:"TEMPERATURE"`
}
type decRecLong struct {
	G geom.Geom
	I int     `shp:"DESCRIPTION"`
	S string  `shp:"Station_Idx"`
	F float64 `shp:"temperature"`
}

// a record type in which the Go name of one field is the tag of another
type recPointCross struct {
	geom.Point
	I     int     `shp:"ival"`
	Name  string  `shp:"label"`
	Label string  `shp:"name"`
	F     float64 `shp:"fval"`
}
type decRecCross struct {
	G     geom.Geom
	I     int     `shp:"IVAL"`
	Name  string  `shp:"label"`
	Label string  `shp:"name"`
	F     float64 `shp:"fval"`
}

func crossLabel(s string) string {
	if len(s) > 40 {
		s = s[:40]
	}
	return "L" + strings.TrimSpace(s)
}

// decode targets: tags in another letter case, geometry as interface
type decRec struct {
	G geom.Geom
	I int     `shp:"IVAL"`
	S string  `shp:"sval"`
	F float64 `shp:"f"`
}

// a reader whose tags name columns the file does not have, while the Go names
// of the fields do (matching is by tag or name)
type decRecFallback struct {
	G    geom.Geom
	Ival int    `shp:"population"`
	Sval string `shp:"label_x"`
	F    float64
}

func try(f func()) (p string) {
	defer func() {
		if r := recover(); r != nil {
			p = fmt.Sprint(r)
		}
	}()
	f()
	return ""
}

// expected geometry after the round trip.
func expected(g geom.Geom) geom.Geom {
	switch t := g.(type) {
	case geom.LineString:
		return geom.MultiLineString{t}
	case geom.Polygon:
		o := make(geom.Polygon, len(t))
		for i, r := range t {
			o[i] = append(geom.Path{}, r...)
			if len(r) > 0 && r[0] != r[len(r)-1] {
				o[i] = append(o[i], r[0])
			}
		}
		return o
	case *geom.Bounds:
		return geom.Polygon{{t.Min, {X: t.Max.X, Y: t.Min.Y}, t.Max, {X: t.Min.X, Y: t.Max.Y}, t.Min}}
	}
	return g
}

var rep *report.Run
var nFiles, nRecords int64
var tmpRoot string

type rec struct {
	g geom.Geom
	a attrs
}

func judgeAttr(api, kind string, want attrs, gi int, gs string, gf float64, detail map[string]interface{}) {
	if gi != want.I {
		rep.Violation(fmt.Sprintf("%s|%s|int-differs", api, kind), detail)
	}
	if gs != want.S {
		sym := "string-differs"
		if want.S != strings.Trim(want.S, " ") && gs == strings.Trim(want.S, " ") {
			sym = "string-outer-spaces-trimmed"
		}
		detail["want_string"] = want.S
		detail["got_string"] = gs
		if sym == "string-outer-spaces-trimmed" {
			// one class whatever the API and geometry type: the DBF reader of the
			// external go-shp module trims blanks
			rep.Violation("attr|string-outer-spaces-trimmed", detail)
		} else {
			rep.Violation(fmt.Sprintf("%s|%s|%s", api, kind, sym), detail)
		}
	}
	if math.Abs(gf-want.F) > 1e-10 {
		rep.Violation(fmt.Sprintf("%s|%s|float-differs", api, kind), detail)
	}
}

func roundTrip(kind string, recs []rec, api string) {
	dir, err := os.MkdirTemp(tmpRoot, "c16-")
	if err != nil {
		report.Harness("%v", err)
	}
	defer os.RemoveAll(dir)
	fn := filepath.Join(dir, "t.shp")
	atomic.AddInt64(&nFiles, 1)
	atomic.AddInt64(&nRecords, int64(len(recs)))
	detail := func(i int, extra string) map[string]interface{} {
		var gs []string
		for _, r := range recs {
			gs = append(gs, fmt.Sprintf("%#v %+v", r.g, r.a))
		}
		return map[string]interface{}{"api": api, "kind": kind, "records": gs, "record_index": i, "observed": extra}
	}
	// "-flat": the geometries handed to the encoder have their vertex slices cut
	// from one flat buffer each (spare capacity reaching into the next part); the
	// encoder must not write to them
	label := api
	wrecs := recs
	var written []func() string
	if strings.HasSuffix(api, "-flat") {
		api = strings.TrimSuffix(api, "-flat")
		wrecs = make([]rec, len(recs))
		for i, r := range recs {
			g, w := geomgen.FlatBacked(r.g)
			wrecs[i] = r
			wrecs[i].g = g
			written = append(written, w)
		}
	}
	defer func() {
		for i, w := range written {
			if m := w(); m != "" {
				rep.Violation(fmt.Sprintf("%s|%s|caller-buffer-written", label, kind), detail(i, m))
			}
		}
	}()
	// ---- write
	if api == "struct" || api == "struct-string-last" || api == "struct-long-names" || api == "struct-cross-names" || api == "struct-geometry-last" {
		var arch interface{}
		switch kind {
		case "Point":
			arch = recPoint{}
			if api == "struct-string-last" {
				arch = recPointSL{}
			} else if api == "struct-long-names" {
				arch = recPointLong{}
			} else if api == "struct-cross-names" {
				arch = recPointCross{}
			}
		case "MultiPoint":
			arch = recMultiPoint{}
		case "LineString":
			arch = recLine{}
		case "MultiLineString":
			arch = recMultiLine{}
		case "Polygon":
			arch = recPolygon{}
		case "Bounds":
			arch = recBounds{}
		}
		if api == "struct-geometry-last" {
			arch = map[string]interface{}{"Point": recPointGL{}, "MultiPoint": recMultiPointGL{}, "LineString": recLineGL{}, "MultiLineString": recMultiLineGL{}, "Polygon": recPolygonGL{}, "Bounds": recBoundsGL{}}[kind]
		}
		var e *shp.Encoder
		if p := try(func() { e, err = shp.NewEncoder(fn, arch) }); p != "" || err != nil {
			rep.Violation(fmt.Sprintf("struct|%s|NewEncoder-failed", kind), detail(-1, fmt.Sprint(p, err)))
			return
		}
		for i, r := range wrecs {
			var d interface{}
			switch t := r.g.(type) {
			case geom.Point:
				d = recPoint{t, r.a.I, r.a.S, r.a.F}
				if api == "struct-string-last" {
					d = recPointSL{t, r.a.F, r.a.I, r.a.S}
				} else if api == "struct-long-names" {
					d = recPointLong{t, r.a.I, r.a.S, r.a.F}
				} else if api == "struct-cross-names" {
					d = recPointCross{t, r.a.I, r.a.S, crossLabel(r.a.S), r.a.F}
				}
			case geom.MultiPoint:
				d = recMultiPoint{t, r.a.I, r.a.S, r.a.F}
			case geom.LineString:
				d = recLine{t, r.a.I, r.a.S, r.a.F}
			case geom.MultiLineString:
				d = recMultiLine{t, r.a.I, r.a.S, r.a.F}
			case geom.Polygon:
				d = recPolygon{t, r.a.I, r.a.S, r.a.F}
			case *geom.Bounds:
				d = recBounds{t, r.a.I, r.a.S, r.a.F}
			}
			if api == "struct-geometry-last" {
				switch t := r.g.(type) {
				case geom.Point:
					d = recPointGL{r.a.I, r.a.S, r.a.F, t}
				case geom.MultiPoint:
					d = recMultiPointGL{r.a.I, r.a.S, r.a.F, t}
				case geom.LineString:
					d = recLineGL{r.a.I, r.a.S, r.a.F, t}
				case geom.MultiLineString:
					d = recMultiLineGL{r.a.I, r.a.S, r.a.F, t}
				case geom.Polygon:
					d = recPolygonGL{r.a.I, r.a.S, r.a.F, t}
				case *geom.Bounds:
					d = recBoundsGL{r.a.I, r.a.S, r.a.F, t}
				}
			}
			var eerr error
			if p := try(func() { eerr = e.Encode(d) }); p != "" || eerr != nil {
				rep.Violation(fmt.Sprintf("struct|%s|Encode-failed", kind), detail(i, fmt.Sprint(p, eerr)))
				e.Close()
				return
			}
		}
		e.Close()
	} else {
		st := map[string]gshp.ShapeType{"Point": gshp.POINT, "MultiPoint": gshp.MULTIPOINT, "LineString": gshp.POLYLINE, "MultiLineString": gshp.POLYLINE, "Polygon": gshp.POLYGON, "Bounds": gshp.POLYGON}[kind]
		var e *shp.Encoder
		if p := try(func() {
			if api == "fields-long-names" {
				e, err = shp.NewEncoderFromFields(fn, st, gshp.NumberField("description", 10), gshp.StringField("station_idx", 50), gshp.FloatField("temperature", 30, 10))
			} else {
				e, err = shp.NewEncoderFromFields(fn, st, gshp.NumberField("ival", 10), gshp.StringField("sval", 50), gshp.FloatField("fval", 30, 10))
			}
		}); p != "" || err != nil {
			rep.Violation(fmt.Sprintf("fields|%s|NewEncoderFromFields-failed", kind), detail(-1, fmt.Sprint(p, err)))
			return
		}
		for i, r := range wrecs {
			var eerr error
			if p := try(func() { eerr = e.EncodeFields(r.g, r.a.I, r.a.S, r.a.F) }); p != "" || eerr != nil {
				rep.Violation(fmt.Sprintf("fields|%s|EncodeFields-failed", kind), detail(i, fmt.Sprint(p, eerr)))
				e.Close()
				return
			}
		}
		e.Close()
	}
	// ---- read
	var d *shp.Decoder
	if p := try(func() { d, err = shp.NewDecoder(fn) }); p != "" || err != nil {
		rep.Violation(fmt.Sprintf("%s|%s|NewDecoder-failed", api, kind), detail(-1, fmt.Sprint(p, err)))
		return
	}
	defer d.Close()
	n := 0
	// results handed out earlier must survive later rows (history): they are
	// looked at again after the last row
	type keptRow struct {
		n int
		g geom.Geom
		f map[string]string
	}
	var kept []keptRow
	for {
		var g geom.Geom
		var gi int
		var keepF map[string]string
		var gs string
		var gf float64
		more := false
		if api == "struct-cross-names" {
			var r decRecCross
			if p := try(func() { more = d.DecodeRow(&r) }); p != "" {
				rep.Violation(fmt.Sprintf("struct-cross-names|%s|DecodeRow-panic", kind), detail(n, p))
				return
			}
			g, gi, gs, gf = r.G, r.I, r.Name, r.F
			if more && n < len(recs) && r.Label != crossLabel(recs[n].a.S) {
				rep.Violation(fmt.Sprintf("struct-cross-names|%s|string-differs", kind), detail(n, fmt.Sprintf("field Label (tag name) read %q, written %q; field Name (tag label) read %q", r.Label, crossLabel(recs[n].a.S), r.Name)))
			}
		} else if api == "struct-long-names" {
			var r decRecLong
			if p := try(func() { more = d.DecodeRow(&r) }); p != "" {
				rep.Violation(fmt.Sprintf("struct-long-names|%s|DecodeRow-panic", kind), detail(n, p))
				return
			}
			g, gi, gs, gf = r.G, r.I, r.S, r.F
		} else if api == "struct-geometry-last" {
			var r decRecFallback
			if p := try(func() { more = d.DecodeRow(&r) }); p != "" {
				rep.Violation(fmt.Sprintf("struct-geometry-last|%s|DecodeRow-panic", kind), detail(n, p))
				return
			}
			g, gi, gs, gf = r.G, r.Ival, r.Sval, r.F
		} else if api == "struct" || api == "struct-string-last" {
			var r decRec
			if p := try(func() { more = d.DecodeRow(&r) }); p != "" {
				rep.Violation(fmt.Sprintf("struct|%s|DecodeRow-panic", kind), detail(n, p))
				return
			}
			g, gi, gs, gf = r.G, r.I, r.S, r.F
		} else {
			var f map[string]string
			geomOnly := api == "fields-mixed" && n%2 == 0
			if p := try(func() {
				if geomOnly {
					g, f, more = d.DecodeRowFields()
				} else if api == "fields-long-names" {
					g, f, more = d.DecodeRowFields("DESCRIPTION", "station_idx", "Temperature")
					if f != nil {
						f = map[string]string{"IVAL": f["DESCRIPTION"], "sval": f["station_idx"], "FVal": f["Temperature"]}
					}
				} else {
					g, f, more = d.DecodeRowFields("IVAL", "sval", "FVal")
				}
			}); p != "" {
				rep.Violation(fmt.Sprintf("fields|%s|DecodeRowFields-panic", kind), detail(n, p))
				return
			}
			if more && geomOnly {
				// attributes of this record are not asked for
				gi, gs, gf = recs[n%len(recs)].a.I, recs[n%len(recs)].a.S, recs[n%len(recs)].a.F
				if gs != strings.Trim(gs, " ") {
					gs = recs[n%len(recs)].a.S
				}
			} else if more {
				keepF = f
				gi, _ = strconv.Atoi(strings.TrimSpace(f["IVAL"]))
				gs = f["sval"]
				gf, _ = strconv.ParseFloat(strings.TrimSpace(f["FVal"]), 64)
			}
		}
		if !more {
			break
		}
		if n >= len(recs) {
			rep.Violation(fmt.Sprintf("%s|%s|too-many-records", api, kind), detail(n, ""))
			return
		}
		want := expected(recs[n].g)
		if df := geomgen.Diff(want, g, true); df != "" {
			rep.Violation(fmt.Sprintf("%s|%s|geometry-differs", api, kind), detail(n, fmt.Sprintf("%s: got %#v want %#v", df, g, want)))
		}
		judgeAttr(api, kind, recs[n].a, gi, gs, gf, detail(n, fmt.Sprintf("got attrs %d %q %v", gi, gs, gf)))
		kept = append(kept, keptRow{n, g, keepF})
		n++
	}
	for _, k := range kept {
		if df := geomgen.Diff(expected(recs[k.n].g), k.g, true); df != "" {
			rep.Violation(fmt.Sprintf("%s|%s|geometry-changed-by-later-rows", api, kind), detail(k.n, df))
		}
		if k.f != nil {
			gi, _ := strconv.Atoi(strings.TrimSpace(k.f["IVAL"]))
			gf, _ := strconv.ParseFloat(strings.TrimSpace(k.f["FVal"]), 64)
			judgeAttr(api+"|after-later-rows", kind, recs[k.n].a, gi, k.f["sval"], gf, detail(k.n, fmt.Sprintf("attribute map of row %d read again after the last row: %v", k.n, k.f)))
		}
	}
	if err := d.Error(); err != nil {
		rep.Violation(fmt.Sprintf("%s|%s|decoder-error", api, kind), detail(n, err.Error()))
	}
	if n != len(recs) {
		rep.Violation(fmt.Sprintf("%s|%s|record-count", api, kind), detail(n, fmt.Sprintf("read %d records, wrote %d", n, len(recs))))
	}
}

func main() {
	tier := "quick"
	if len(os.Args) > 1 {
		tier = os.Args[1]
	}
	if tier == "replay" {
		b, _ := os.ReadFile(os.Args[2])
		fmt.Printf("%s\nThe case lists the written records as Go literals, the API and the failing record index.\n", b)
		return
	}
	rep = report.New("C16", tier, "model_checking")
	rep.Rule = "E1: for each of Point, MultiPoint, LineString, MultiLineString, Polygon, *Bounds: every shape with 1..3 parts/rings x 1..3 vertices (rings closed, closed with the closing vertex twice, and unclosed, both windings by rotation of the pattern list, every fourth rotation with a repeated consecutive vertex in every part) with coordinates from 19 finite float64 patterns, as single records, ordered pairs and triples of a reduced shape list, the empty file, files of 100 records and records with parts of up to 300 vertices / 40 parts; attributes int {0,-1,+-999999999,9999999999,42}, string {empty, 1 byte, 50 bytes, UTF-8, inner spaces, leading/trailing space, three byte strings that are not valid UTF-8, a tab / line feed / carriage return / no-break space / em space at either end}, float {0,-1.5,1/3,1e10,123456789.1234567891,-1e-10, 1e18, 2^63, -1e17 (these fill the 30-character field)}; multi-line strings also with empty parts after the first; the struct API (tags/names in different letter case between writer and reader; for every type also a record type whose last field is the geometry (read back into a struct whose tags name no column of the file but whose field names do), for points also a record type whose last field is the string, and one in which the Go name of a field is the tag of another), the field API, both with attribute names of 11 bytes too, and the field API with geometry-only reads (no field names) on every other record. the struct and field APIs again with the written geometries cut from flat vertex buffers (not written to). Oracle: same number and order of records, every returned geometry and attribute map still intact after the last row, bit-identical coordinates part by part (unclosed rings closed, boxes as 5-vertex rectangles), ints equal, strings equal, floats within 1e-10. Non-trivial = files with >= 2 records or >= 2 parts."
	tmpRoot = "/dev/shm"
	if st, err := os.Stat(tmpRoot); err != nil || !st.IsDir() {
		tmpRoot = os.TempDir()
	}
	pat := geomgen.FinitePatterns
	mk := func(s geomgen.Skel, rot int) geom.Geom {
		i := 0
		val := func() float64 { v := pat[(i+rot)%len(pat)]; i++; return v }
		g := geomgen.Build(s, func() geom.Point { x := val(); y := val(); return geom.Point{X: x, Y: y} })
		if rot%4 == 3 {
			// every fourth rotation: the second vertex of every part of >= 3
			// vertices repeats the first (consecutive duplicates are legal and
			// must come back)
			dup := func(p []geom.Point) {
				if len(p) >= 3 {
					p[1] = p[0]
				}
			}
			switch t := g.(type) {
			case geom.MultiPoint:
				dup(t)
			case geom.LineString:
				dup(t)
			case geom.MultiLineString:
				for _, l := range t {
					dup(l)
				}
			case geom.Polygon:
				for _, r := range t {
					dup(r)
				}
			}
		}
		return g
	}
	lens := []int{1, 2, 3, 4}
	if tier == "thorough" {
		lens = []int{1, 2, 3, 4, 5}
	}
	shapes := map[string][]geomgen.Skel{}
	shapes["Point"] = []geomgen.Skel{{Kind: geomgen.KPoint}}
	for _, n := range lens {
		shapes["MultiPoint"] = append(shapes["MultiPoint"], geomgen.Skel{Kind: geomgen.KMultiPoint, N: n})
		shapes["LineString"] = append(shapes["LineString"], geomgen.Skel{Kind: geomgen.KLineString, N: n})
	}
	for _, s := range geomgen.Simple(geomgen.Config{MaxMembers: 3, Lens: lens, FlatMax: 0, PolyRings: 0}) {
		if (s.Kind == geomgen.KMultiLineString || s.Kind == geomgen.KPolygon) && len(s.Kids) >= 1 {
			k := "MultiLineString"
			if s.Kind == geomgen.KPolygon {
				k = "Polygon"
			}
			shapes[k] = append(shapes[k], s)
		}
	}
	// multi-line strings may have empty parts (first part non-empty so that the record has a vertex)
	for _, s := range geomgen.Simple(geomgen.Config{MaxMembers: 3, Lens: []int{0, 1, 2}, FlatMax: 0, PolyRings: 0}) {
		if s.Kind == geomgen.KMultiLineString && len(s.Kids) >= 2 && s.Kids[0].N > 0 {
			empty := false
			for _, k := range s.Kids {
				if k.N == 0 {
					empty = true
				}
			}
			if empty {
				shapes["MultiLineString"] = append(shapes["MultiLineString"], s)
			}
		}
	}
	shapes["Bounds"] = []geomgen.Skel{{Kind: geomgen.KBounds}}
	type job struct {
		kind string
		recs []rec
		api  string
	}
	var jobs []job
	var nontrivial int64
	for kind, sk := range shapes {
		build := func(si, rot int) geom.Geom {
			g := mk(sk[si], rot)
			if b, ok := g.(*geom.Bounds); ok {
				g = &geom.Bounds{Min: geom.Point{X: math.Min(b.Min.X, b.Max.X), Y: math.Min(b.Min.Y, b.Max.Y)}, Max: geom.Point{X: math.Max(b.Min.X, b.Max.X), Y: math.Max(b.Min.Y, b.Max.Y)}}
			}
			if p, ok := g.(geom.Polygon); ok && rot%2 == 1 {
				// closed spelling for odd rotations; for every third of them the
				// closing vertex twice (a legal repeated vertex at the end)
				for i := range p {
					if len(p[i]) > 0 {
						p[i] = append(p[i], p[i][0])
						if rot%3 == 0 {
							p[i] = append(p[i], p[i][0])
						}
					}
				}
			}
			return g
		}
		apis := []string{"struct", "fields", "fields-mixed", "struct-flat", "fields-flat", "fields-long-names", "struct-geometry-last"}
		if kind == "Point" {
			apis = append(apis, "struct-long-names", "struct-cross-names")
		}
		if kind == "Point" {
			apis = append(apis, "struct-string-last")
		}
		for _, api := range apis {
			jobs = append(jobs, job{kind, nil, api})
			for si := range sk {
				for rot := 0; rot < len(pat); rot++ {
					jobs = append(jobs, job{kind, []rec{{build(si, rot), attrsFor(si + rot)}}, api})
				}
			}
			red := len(sk)
			if red > 6 {
				red = 6
			}
			for a := 0; a < red; a++ {
				for b := 0; b < red; b++ {
					jobs = append(jobs, job{kind, []rec{{build(a, a), attrsFor(a)}, {build(b, b+5), attrsFor(b + 3)}}, api})
				}
			}
			if red > 3 {
				red = 3
			}
			for a := 0; a < red; a++ {
				for b := 0; b < red; b++ {
					for c := 0; c < red; c++ {
						jobs = append(jobs, job{kind, []rec{{build(a, 1), attrsFor(a)}, {build(b, 8), attrsFor(b + 2)}, {build(c, 12), attrsFor(c + 4)}}, api})
					}
				}
			}
			// every attribute value once more with a fixed shape
			for k := 0; k < 24; k++ {
				jobs = append(jobs, job{kind, []rec{{build(0, 0), attrs{ints[k%len(ints)], strs[(k/2)%len(strs)], floats[(k/3)%len(floats)]}}, {build(0, 3), attrsFor(k)}}, api})
			}
		}
	}
	// records whose geometry has no vertex, between ordinary ones: they are
	// records all the same (number and order of the rows, attributes)
	for kind, empty := range map[string]geom.Geom{"MultiPoint": geom.MultiPoint{}, "MultiLineString": geom.MultiLineString{}, "Polygon": geom.Polygon{}} {
		for _, api := range []string{"struct", "fields"} {
			a, b := mk(shapes[kind][0], 1), mk(shapes[kind][1%len(shapes[kind])], 4)
			jobs = append(jobs,
				job{kind, []rec{{a, attrsFor(1)}, {empty, attrsFor(2)}, {b, attrsFor(3)}}, api},
				job{kind, []rec{{empty, attrsFor(4)}, {a, attrsFor(5)}}, api},
				job{kind, []rec{{a, attrsFor(6)}, {empty, attrsFor(7)}}, api})
		}
	}
	// sizes: files of 100 records, and records with long parts / many parts
	{
		line := func(n int) geomgen.Skel { return geomgen.Skel{Kind: geomgen.KLineString, N: n} }
		ring := func(n int) geomgen.Skel { return geomgen.Skel{Kind: geomgen.KRing, N: n} }
		var manyLines, manyRings []geomgen.Skel
		for i := 0; i < 40; i++ {
			manyLines = append(manyLines, line(2+i%3))
			manyRings = append(manyRings, ring(3+i%2))
		}
		bigShapes := map[string][]geomgen.Skel{
			"MultiPoint":      {{Kind: geomgen.KMultiPoint, N: 300}},
			"LineString":      {line(300), line(65)},
			"MultiLineString": {{Kind: geomgen.KMultiLineString, Kids: manyLines}, {Kind: geomgen.KMultiLineString, Kids: []geomgen.Skel{line(200), line(2), line(100)}}},
			"Polygon":         {{Kind: geomgen.KPolygon, Kids: manyRings}, {Kind: geomgen.KPolygon, Kids: []geomgen.Skel{ring(150), ring(3)}}},
		}
		for kind, sk := range bigShapes {
			for _, api := range []string{"struct", "fields"} {
				for si := range sk {
					jobs = append(jobs, job{kind, []rec{{mk(sk[si], si+1), attrsFor(si)}, {mk(sk[si], si+6), attrsFor(si + 1)}}, api})
				}
				var many []rec
				for i := 0; i < 100; i++ {
					many = append(many, rec{mk(shapes[kind][i%len(shapes[kind])], i), attrsFor(i)})
				}
				jobs = append(jobs, job{kind, many, api})
			}
		}
	}
	for _, j := range jobs {
		if len(j.recs) >= 2 {
			nontrivial++
		}
	}
	rep.Set("files", len(jobs))
	enum.Parallel(len(jobs), rep.Expired, func(i int) {
		roundTrip(jobs[i].kind, jobs[i].recs, jobs[i].api)
		if i%1500 == 0 && len(jobs[i].recs) > 0 {
			rep.Sample(8, fmt.Sprintf("%s %s %#v %+v", jobs[i].api, jobs[i].kind, jobs[i].recs[0].g, jobs[i].recs[0].a))
		}
	})
	if rep.Expired() {
		rep.Cap("wall budget expired")
	}
	rep.AddStates(nFiles)
	rep.AddTransitions(nRecords * 2)
	rep.AddEvals(nFiles)
	rep.AddNontrivial(nontrivial)
	rep.Finish()
}
