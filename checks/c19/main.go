// C19 — ShortestRoute returns a minimum-cost path through the link network.
// Engine E2 (explicit-state search over AddLink histories, successor = replay
// on a fresh Network) + E3 environment choices (map iteration order in the
// instrumented route package), oracle Floyd-Warshall.
package main

import (
	"fmt"
	"math"
	"os"
	"sort"
	"strings"
	"sync"

	"github.com/ctessum/geom"
	"github.com/ctessum/geom/route"

	"verif/mc/enum"
	"verif/mc/report"
	"verif/mc/sched"
)

var nodePos = []geom.Point{{X: 0, Y: 0}, {X: 10, Y: 1}, {X: 1, Y: 9}, {X: 11, Y: 12}, {X: 5, Y: 4}}

type link struct {
	A, B  int
	Geom  geom.LineString
	Speed float64
	Len   float64
}

// linkTable builds the 10 candidate links (one per node pair); variant selects
// geometry (straight / detour) and speed (1 / 4) per pair.
func linkTable(variant int, speeds [2]float64) []link {
	var t []link
	k := 0
	for a := 0; a < len(nodePos); a++ {
		for b := a + 1; b < len(nodePos); b++ {
			v := (k*7 + variant*3 + k/3) % 4
			pa, pb := nodePos[a], nodePos[b]
			g := geom.LineString{pa, pb}
			if v&1 == 1 {
				// detour through an off-line point
				mid := geom.Point{X: (pa.X+pb.X)/2 + float64(3+k%4), Y: (pa.Y+pb.Y)/2 - float64(2+k%3)}
				g = geom.LineString{pa, mid, pb}
			}
			if (k+variant)%2 == 1 {
				// stored in the opposite direction
				for i, j := 0, len(g)-1; i < j; i, j = i+1, j-1 {
					g[i], g[j] = g[j], g[i]
				}
			}
			speed := speeds[0]
			if v&2 == 2 {
				speed = speeds[1]
			}
			l := 0.0
			for i := 0; i+1 < len(g); i++ {
				l += math.Hypot(g[i+1].X-g[i].X, g[i+1].Y-g[i].Y)
			}
			t = append(t, link{a, b, g, speed, l})
			k++
		}
	}
	return t
}

var queries = append(append([]geom.Point{}, nodePos...), geom.Point{X: 1, Y: -2}, geom.Point{X: 9, Y: 13.5})

func try(f func()) (p string) {
	defer func() {
		if r := recover(); r != nil {
			p = fmt.Sprint(r)
		}
	}()
	f()
	return ""
}

func nodeOrder(tab []link, hist []int) []int {
	var order []int
	seen := map[int]bool{}
	for _, li := range hist {
		l := tab[li]
		// AddLink looks at l[0] then l[last]
		ends := []int{l.A, l.B}
		if l.Geom[0] != nodePos[l.A] {
			ends = []int{l.B, l.A}
		}
		for _, n := range ends {
			if !seen[n] {
				seen[n] = true
				order = append(order, n)
			}
		}
	}
	return order
}

func build(tab []link, hist []int, opt route.MinimizeOption) (*route.Network, string) {
	net := route.NewNetwork(opt)
	var p string
	for _, li := range hist {
		l := tab[li]
		g := append(geom.LineString{}, l.Geom...)
		if p = try(func() { net.AddLink(g, l.Speed) }); p != "" {
			return nil, p
		}
	}
	return net, ""
}

var rep *report.Run

// fwCost is the Floyd-Warshall all-pairs minimum cost of the links of hist
// (cached for the large grid network, which is queried thousands of times).
var fwCache = map[string][][]float64{}

func fwCost(tab []link, hist []int, opt route.MinimizeOption) [][]float64 {
	key := ""
	if len(nodePos) > 10 {
		key = fmt.Sprintf("%p|%d|%v", &tab[0], len(hist), opt)
		if c, ok := fwCache[key]; ok {
			return c
		}
	}
	n := len(nodePos)
	cost := make([][]float64, n)
	for i := range cost {
		cost[i] = make([]float64, n)
		for j := range cost[i] {
			if i != j {
				cost[i][j] = math.Inf(1)
			}
		}
	}
	w := func(l link) float64 {
		if opt == route.Time {
			return l.Len / l.Speed
		}
		return l.Len
	}
	for _, li := range hist {
		l := tab[li]
		if w(l) < cost[l.A][l.B] {
			cost[l.A][l.B], cost[l.B][l.A] = w(l), w(l)
		}
	}
	for k := 0; k < n; k++ {
		for i := 0; i < n; i++ {
			for j := 0; j < n; j++ {
				if cost[i][k]+cost[k][j] < cost[i][j] {
					cost[i][j] = cost[i][k] + cost[k][j]
				}
			}
		}
	}
	if key != "" {
		fwCache[key] = cost
	}
	return cost
}

// dijkstraRow is the minimum cost from node s to every node over the links of
// hist (O(n^2) selection, no heap: the reference stays a dozen lines), cached.
var dijCache = map[string][]float64{}

func dijkstraRow(tab []link, hist []int, opt route.MinimizeOption, s int) []float64 {
	key := fmt.Sprintf("%p|%d|%v|%d", &tab[0], len(hist), opt, s)
	if c, ok := dijCache[key]; ok {
		return c
	}
	n := len(nodePos)
	type arc struct {
		to int
		w  float64
	}
	adj := make([][]arc, n)
	for _, li := range hist {
		l := tab[li]
		w := l.Len
		if opt == route.Time {
			w = l.Len / l.Speed
		}
		adj[l.A] = append(adj[l.A], arc{l.B, w})
		adj[l.B] = append(adj[l.B], arc{l.A, w})
	}
	d := make([]float64, n)
	done := make([]bool, n)
	for i := range d {
		d[i] = math.Inf(1)
	}
	d[s] = 0
	for {
		u := -1
		for i := range d {
			if !done[i] && !math.IsInf(d[i], 1) && (u < 0 || d[i] < d[u]) {
				u = i
			}
		}
		if u < 0 {
			break
		}
		done[u] = true
		for _, a := range adj[u] {
			if d[u]+a.w < d[a.to] {
				d[a.to] = d[u] + a.w
			}
		}
	}
	dijCache[key] = d
	return d
}

// judge one query on one network; returns "" or symptom + detail
func judge(tab []link, hist []int, opt route.MinimizeOption, net *route.Network, from, to geom.Point) (string, string, bool) {
	present := map[int]bool{}
	for _, li := range hist {
		present[tab[li].A], present[tab[li].B] = true, true
	}
	nearest := func(p geom.Point) (int, bool) {
		best, bd, tie := -1, math.Inf(1), false
		for n := range nodePos {
			if !present[n] {
				continue
			}
			d := math.Hypot(nodePos[n].X-p.X, nodePos[n].Y-p.Y)
			if math.Abs(d-bd) < 1e-9 {
				tie = true
			} else if d < bd {
				best, bd, tie = n, d, false
			}
		}
		return best, !tie
	}
	s, ok1 := nearest(from)
	t, ok2 := nearest(to)
	if !ok1 || !ok2 {
		return "", "", true
	}
	var cost [][]float64
	if len(nodePos) > 200 {
		// large networks: only the row of the start node, by Dijkstra
		cost = make([][]float64, len(nodePos))
		cost[s] = dijkstraRow(tab, hist, opt, s)
	} else {
		cost = fwCost(tab, hist, opt)
	}
	var rt geom.MultiLineString
	var dist, tm, sd, ed float64
	if p := try(func() { rt, dist, tm, sd, ed = net.ShortestRoute(from, to) }); p != "" {
		return "panic", p, false
	}
	wantSD := math.Hypot(nodePos[s].X-from.X, nodePos[s].Y-from.Y)
	wantED := math.Hypot(nodePos[t].X-to.X, nodePos[t].Y-to.Y)
	if math.Abs(sd-wantSD) > 1e-9 || math.Abs(ed-wantED) > 1e-9 {
		return "wrong-nearest-node", fmt.Sprintf("start/end distances %g %g, want %g %g", sd, ed, wantSD, wantED), false
	}
	if math.IsInf(cost[s][t], 1) || s == t {
		if len(rt) != 0 {
			return "route-for-unconnected-or-identical-nodes", fmt.Sprint(rt), false
		}
		if dist != 0 || tm != 0 {
			return "empty-route-with-non-zero-totals", fmt.Sprintf("distance %g time %g", dist, tm), false
		}
		return "", "", false
	}
	if len(rt) == 0 {
		return "empty-route-although-connected", fmt.Sprintf("nodes %d -> %d are connected with cost %g", s, t, cost[s][t]), false
	}
	// chain from s to t, totals
	cur := nodePos[s]
	var sumLen, sumTime float64
	for i, l := range rt {
		var found *link
		for _, li := range hist {
			g := tab[li].Geom
			if len(g) == len(l) && len(l) > 0 && g[0] == l[0] && g[len(g)-1] == l[len(l)-1] {
				same := true
				for k := range g {
					if g[k] != l[k] {
						same = false
						break
					}
				}
				if same {
					found = &tab[li]
				}
			}
		}
		if found == nil {
			return "route-contains-unknown-link", fmt.Sprint(l), false
		}
		switch {
		case l[0] == cur:
			cur = l[len(l)-1]
		case l[len(l)-1] == cur:
			cur = l[0]
		default:
			return "links-do-not-chain", fmt.Sprintf("link %d of %v does not start at %v", i, rt, cur), false
		}
		sumLen += found.Len
		sumTime += found.Len / found.Speed
	}
	if cur != nodePos[t] {
		return "route-does-not-end-at-nearest-node", fmt.Sprint(rt), false
	}
	if math.Abs(sumLen-dist) > 1e-9 || math.Abs(sumTime-tm) > 1e-9 {
		return "totals-wrong", fmt.Sprintf("reported %g %g, links sum to %g %g", dist, tm, sumLen, sumTime), false
	}
	got := sumLen
	if opt == route.Time {
		got = sumTime
	}
	if got > cost[s][t]*(1+1e-12)+1e-9 {
		return "not-minimal", fmt.Sprintf("route %v costs %g, minimum is %g", rt, got, cost[s][t]), false
	}
	return "", "", false
}

func histString(tab []link, hist []int, opt route.MinimizeOption) string {
	var s []string
	for _, li := range hist {
		s = append(s, fmt.Sprintf("AddLink(%v, %g)", tab[li].Geom, tab[li].Speed))
	}
	o := "Distance"
	if opt == route.Time {
		o = "Time"
	}
	return "NewNetwork(" + o + ") " + strings.Join(s, " ")
}

func main() {
	tier := "quick"
	if len(os.Args) > 1 {
		tier = os.Args[1]
	}
	if tier == "replay" {
		b, _ := os.ReadFile(os.Args[2])
		fmt.Printf("%s\nThe case holds the AddLink history and the query as Go literals.\n", b)
		return
	}
	rep = report.New("C19", tier, "model_checking")
	rep.Rule = "E2: breadth-first search over all AddLink histories (each of the 10 candidate links between 5 irregularly placed nodes at most once; straight / detour geometry, stored direction and speed fixed per link by a table; tables with speeds {1,4} and uniform 0.1 (thorough: three {1,4} tables, uniform 0.1, {0.25,0.5}, uniform 25), and one table (thorough two) over 5 nodes in projected-metre coordinates (500000, 4900000) of which two are 0.36 apart) to depth 5 (7), deduplicated by (link set, node-id assignment); successor = replay on a fresh Network; in every distinct state, for both MinimizeOptions, all 49 ordered pairs of query points from {5 node positions, 2 off-network points} (pairs with a non-unique nearest node skipped); E3: in states with <= 3 links every query is additionally explored over all map-iteration orders of the instrumented route package with at most 1 deviation. every state of >= 2 links is also reached on one object with all queries asked before the last AddLink (queries as operations); an 8x8 street grid (64 nodes, 112 links: the node index has several leaves) with all 4096 ordered pairs of 64 off-node query points (some links densified to 1500 vertices), the same as a 9x7 grid in longitude/latitude-like coordinates (63 nodes, 3969 query pairs) and as 13x13 scattered nodes (169 nodes, 361 query points inside and up to three steps outside the network, 6 partners each), a straight road of 80 collinear nodes with 144 query pairs, and a ladder of 1501 rungs (3002 nodes: three levels in the node index) with 576 query pairs; Oracle: Floyd-Warshall minimum cost, chain validity, totals, emptiness. Non-trivial = states in which some node pair has at least two distinct routes."
	type tabSpec struct {
		variant int
		speeds  [2]float64
		pos     int // node positions: 0 the small irregular ones, 1 projected-metre coordinates with two nodes 0.36 apart
	}
	posSets := [][]geom.Point{
		nodePos,
		{{X: 500000, Y: 4900000}, {X: 501000, Y: 4900000}, {X: 501000.36, Y: 4900000}, {X: 502000, Y: 4900010}, {X: 501000.2, Y: 4900900}},
	}
	qSets := [][]geom.Point{
		queries,
		append(append([]geom.Point{}, posSets[1]...), geom.Point{X: 500990, Y: 4899990}, geom.Point{X: 501500, Y: 4900400}),
	}
	defer func(p, q []geom.Point) { nodePos, queries = p, q }(nodePos, queries)
	// (uniform and sub-unit speeds: the time heuristic and the link weight must
	// stay in the same unit whatever the speeds are)
	depth, tables := 5, []tabSpec{{0, [2]float64{1, 4}, 0}, {1, [2]float64{0.1, 0.1}, 0}, {2, [2]float64{1, 4}, 1}}
	if tier == "thorough" {
		depth, tables = 7, []tabSpec{{0, [2]float64{1, 4}, 0}, {1, [2]float64{1, 4}, 0}, {2, [2]float64{1, 4}, 0}, {1, [2]float64{0.1, 0.1}, 0}, {0, [2]float64{0.25, 0.5}, 0}, {2, [2]float64{25, 25}, 0}, {0, [2]float64{1, 4}, 1}, {2, [2]float64{1, 4}, 1}}
	}
	var states, trans, queriesRun, envExecs, nontrivial, skipped int64
	var mu sync.Mutex
	for _, ts := range tables {
		nodePos, queries = posSets[ts.pos], qSets[ts.pos]
		tab := linkTable(ts.variant, ts.speeds)
		seen := map[string]bool{}
		frontier := [][]int{{}}
		for d := 1; d <= depth && !rep.Expired(); d++ {
			var next [][]int
			for _, h := range frontier {
				used := map[int]bool{}
				for _, li := range h {
					used[li] = true
				}
				for li := range tab {
					if used[li] {
						continue
					}
					nh := append(append([]int{}, h...), li)
					trans++
					set := append([]int{}, nh...)
					sort.Ints(set)
					k := fmt.Sprint(set, nodeOrder(tab, nh))
					if !seen[k] {
						seen[k] = true
						next = append(next, nh)
					}
				}
			}
			states += int64(len(next))
			enum.Parallel(len(next), rep.Expired, func(i int) {
				h := next[i]
				for _, opt := range []route.MinimizeOption{route.Distance, route.Time} {
					net, p := build(tab, h, opt)
					if p != "" {
						rep.Violation("AddLink|panic", map[string]interface{}{"history": histString(tab, h, opt), "panic": p})
						continue
					}
					for _, from := range queries {
						for _, to := range queries {
							sym, det, skip := judge(tab, h, opt, net, from, to)
							mu.Lock()
							queriesRun++
							if skip {
								skipped++
							}
							mu.Unlock()
							if sym != "" {
								o := "Distance"
								if opt == route.Time {
									o = "Time"
								}
								rep.Violation(fmt.Sprintf("ShortestRoute|%s|%s", o, sym), map[string]interface{}{"history": histString(tab, h, opt), "from": from, "to": to, "observed": det})
							}
						}
					}
				}
				// queries as operations: on ONE network object, all queries after the
				// first len(h)-1 links, then the last AddLink, then all queries again
				// (an answer remembered from before the last link must not survive it)
				if len(h) >= 2 {
					for _, opt := range []route.MinimizeOption{route.Distance, route.Time} {
						net, p := build(tab, h[:len(h)-1], opt)
						if p != "" {
							continue
						}
						for _, from := range queries {
							for _, to := range queries {
								try(func() { net.ShortestRoute(from, to) })
							}
						}
						l := tab[h[len(h)-1]]
						if p := try(func() { net.AddLink(append(geom.LineString{}, l.Geom...), l.Speed) }); p != "" {
							rep.Violation("AddLink|panic-after-queries", map[string]interface{}{"history": histString(tab, h, opt), "panic": p})
							continue
						}
						for _, from := range queries {
							for _, to := range queries {
								sym, det, _ := judge(tab, h, opt, net, from, to)
								mu.Lock()
								queriesRun++
								mu.Unlock()
								if sym != "" {
									o := "Distance"
									if opt == route.Time {
										o = "Time"
									}
									rep.Violation(fmt.Sprintf("ShortestRoute|%s|queries-before-last-AddLink|%s", o, sym), map[string]interface{}{"history": histString(tab, h, opt) + " (all queries were also asked before the last AddLink)", "from": from, "to": to, "observed": det})
								}
							}
						}
					}
				}
				if len(h) >= 3 {
					mu.Lock()
					nontrivial++
					mu.Unlock()
				}
				if i%500 == 0 {
					rep.Sample(8, histString(tab, h, route.Time))
				}
			})
			frontier = next
		}
		// E3: map-order exploration on the small states (single process: the
		// scheduler state is global)
		var small [][]int
		var gen func(h []int, start int)
		gen = func(h []int, start int) {
			if len(h) > 0 {
				small = append(small, append([]int{}, h...))
			}
			if len(h) == 3 {
				return
			}
			for li := start; li < len(tab); li++ {
				gen(append(h, li), li+1)
			}
		}
		gen(nil, 0)
		for _, h := range small {
			if rep.Expired() {
				break
			}
			for _, opt := range []route.MinimizeOption{route.Distance, route.Time} {
				if _, p := build(tab, h, opt); p != "" {
					continue
				}
				for _, from := range queries[:5] {
					for _, to := range queries[:5] {
						st := sched.Explore(sched.Config{Bound: 1, EnvChoices: true, Body: func() sched.Result {
							// the whole history runs inside the controlled region: map iteration
							// in AddLink is an environment choice like map iteration in a query
							net, p := build(tab, h, opt)
							if p != "" {
								return sched.Result{Outcome: p, Violation: "AddLink-panic"}
							}
							sym, det, _ := judge(tab, h, opt, net, from, to)
							return sched.Result{Outcome: sym + det, Violation: sym}
						}})
						envExecs += st.Execs
						if st.Harness != "" {
							report.Harness("%s", st.Harness)
						}
						for _, v := range st.Violations {
							rep.Violation(fmt.Sprintf("ShortestRoute|map-order|%s", v.Symptom), map[string]interface{}{"history": histString(tab, h, opt), "from": from, "to": to, "observed": v.Outcome, "env_choices": v.Schedule})
						}
					}
				}
			}
		}
	}
	// a network large enough for the node index (an R-tree with 25..50 entries
	// per node) to have several leaves: an 8x8 street grid of 64 slightly
	// displaced nodes and 112 links, 64 query points off the nodes, all 4096
	// ordered pairs, both options
	// the same street grid as 9x7 nodes in longitude/latitude-like coordinates
	// (x around -98, y around 41, steps 0.5 and 0.3: the two coordinate ranges
	// are disjoint and the boxes of the node index are no squares)
	for _, gv := range []struct {
		name           string
		nx, ny         int
		ox, oy, sx, sy float64
		jit, qx, qy    float64
		desc           string
		scatter        bool // displacements of up to 0.4 of a step, query points also in a margin of three steps around the network, 6 partners per query point
	}{
		{"grid-8x8", 8, 8, 0, 0, 100, 100, 1, 37, -21, "8x8 grid, node (i,j) at (100i+(7i+3j)%5, 100j+(3i+5j)%7)", false},
		{"grid-lonlat-9x7", 9, 7, -100, 40, 0.5, 0.3, 0.01, 0.185, -0.063, "9x7 grid, node (i,j) at (-100+0.5i+0.01*((7i+3j)%5), 40+0.3j+0.01*((3i+5j)%7))", false},
		{"scattered-lonlat-13x13", 13, 13, -94, 44, 0.15, 0.15, 0.006, 0.071, 0.083, "13x13 grid, node (i,j) at (-94+0.15i+0.006*((37i+101j+13ij)%11), 44+0.15j+0.006*((53i+29j+7ij)%11))", true},
	} {
		nx, ny := gv.nx, gv.ny
		save := nodePos
		nodePos = nil
		for j := 0; j < ny; j++ {
			for i := 0; i < nx; i++ {
				if gv.scatter {
					nodePos = append(nodePos, geom.Point{X: gv.ox + gv.sx*float64(i) + gv.jit*float64((i*37+j*101+13*i*j)%11), Y: gv.oy + gv.sy*float64(j) + gv.jit*float64((i*53+j*29+7*i*j)%11)})
					continue
				}
				nodePos = append(nodePos, geom.Point{X: gv.ox + gv.sx*float64(i) + gv.jit*float64((i*7+j*3)%5), Y: gv.oy + gv.sy*float64(j) + gv.jit*float64((i*3+j*5)%7)})
			}
		}
		var tab []link
		add := func(a, b int) {
			g := geom.LineString{nodePos[a], nodePos[b]}
			l := math.Hypot(g[1].X-g[0].X, g[1].Y-g[0].Y)
			if (a+b)%17 == 0 {
				// a densified link of 1500 vertices (same straight course): its length
				// is the sum of 1499 pieces
				pa, pb := nodePos[a], nodePos[b]
				g = nil
				for k := 0; k < 1500; k++ {
					t := float64(k) / 1499
					g = append(g, geom.Point{X: pa.X + t*(pb.X-pa.X), Y: pa.Y + t*(pb.Y-pa.Y)})
				}
				g[1499] = pb
				l = 0
				for k := 0; k+1 < len(g); k++ {
					l += math.Hypot(g[k+1].X-g[k].X, g[k+1].Y-g[k].Y)
				}
			}
			sp := []float64{1, 4, 2}[(a+2*b)%3]
			tab = append(tab, link{a, b, g, sp, l})
		}
		for j := 0; j < ny; j++ {
			for i := 0; i < nx; i++ {
				if i < nx-1 {
					add(nx*j+i, nx*j+i+1)
				}
				if j < ny-1 {
					add(nx*j+i, nx*(j+1)+i)
				}
			}
		}
		h := make([]int, len(tab))
		for i := range h {
			h[i] = i
		}
		var qs []geom.Point
		qlo, qhx, qhy := 0, nx, ny
		if gv.scatter {
			qlo, qhx, qhy = -3, nx+3, ny+3
		}
		for j := qlo; j < qhy; j++ {
			for i := qlo; i < qhx; i++ {
				qs = append(qs, geom.Point{X: gv.ox + gv.sx*float64(i) + gv.qx, Y: gv.oy + gv.sy*float64(j) + gv.qy})
			}
		}
		for _, opt := range []route.MinimizeOption{route.Distance, route.Time} {
			net, p := build(tab, h, opt)
			if p != "" {
				rep.Violation("AddLink|panic", map[string]interface{}{"history": gv.name, "panic": p})
				continue
			}
			states++
			for fi, from := range qs {
				for ti, to := range qs {
					if gv.scatter && (ti-fi*7-3)%len(qs)%61 != 0 {
						continue
					}
					sym, det, skip := judge(tab, h, opt, net, from, to)
					queriesRun++
					if skip {
						skipped++
					}
					if sym != "" {
						o := "Distance"
						if opt == route.Time {
							o = "Time"
						}
						rep.Violation(fmt.Sprintf("ShortestRoute|%s|%s|%s", o, gv.name, sym), map[string]interface{}{"network": gv.desc + ", links between grid neighbours, speeds {1,4,2}[(a+2b)%3]", "from": from, "to": to, "observed": det})
					}
				}
			}
		}
		nodePos = save
	}
	// a dual carriageway: two rails y = 0 and y = 1 with a rung at every integer
	// x from 0 to 1500, added west to east one rung at a time (3002 nodes with
	// integer coordinates: the node index has three levels and many of its boxes
	// are flat), 24 query points, all ordered pairs, both options
	{
		save := nodePos
		nodePos = nil
		const rungs = 1501
		for i := 0; i < rungs; i++ {
			nodePos = append(nodePos, geom.Point{X: float64(i), Y: 0}, geom.Point{X: float64(i), Y: 1})
		}
		var tab []link
		for i := 0; i < rungs; i++ {
			sp := []float64{1, 4, 2}[i%3]
			if i > 0 {
				tab = append(tab, link{2 * (i - 1), 2 * i, geom.LineString{nodePos[2*(i-1)], nodePos[2*i]}, sp, 1},
					link{2*(i-1) + 1, 2*i + 1, geom.LineString{nodePos[2*(i-1)+1], nodePos[2*i+1]}, 6 - sp, 1})
			}
			tab = append(tab, link{2 * i, 2*i + 1, geom.LineString{nodePos[2*i], nodePos[2*i+1]}, 2, 1})
		}
		h := make([]int, len(tab))
		for i := range h {
			h[i] = i
		}
		var qs []geom.Point
		for k := 0; k < 24; k++ {
			qs = append(qs, geom.Point{X: 63.3*float64(k) + 0.2, Y: []float64{-0.4, 0.2, 0.7, 1.3}[k%4]})
		}
		for _, opt := range []route.MinimizeOption{route.Distance, route.Time} {
			net, p := build(tab, h, opt)
			if p != "" {
				rep.Violation("AddLink|panic", map[string]interface{}{"history": "ladder of 1501 rungs", "panic": p})
				continue
			}
			states++
			for _, from := range qs {
				for _, to := range qs {
					sym, det, skip := judge(tab, h, opt, net, from, to)
					queriesRun++
					if skip {
						skipped++
					}
					if sym != "" {
						o := "Distance"
						if opt == route.Time {
							o = "Time"
						}
						if len(det) > 600 {
							det = det[:600] + " ..."
						}
						rep.Violation(fmt.Sprintf("ShortestRoute|%s|ladder-1501|%s", o, sym), map[string]interface{}{"network": "nodes (i,0) and (i,1), i = 0..1500; rung i at speed 2, rail segments i-1..i at speeds {1,4,2}[i%3] (y=0) and 6 minus that (y=1); added rung by rung from the west", "from": from, "to": to, "observed": det})
					}
				}
			}
		}
		nodePos = save
	}
	// a straight road: 80 nodes on one horizontal line (every box of the node
	// index is degenerate), 79 unit links, 12 query points beside the road, all
	// 144 ordered pairs, both options
	{
		save := nodePos
		nodePos = nil
		for i := 0; i < 80; i++ {
			nodePos = append(nodePos, geom.Point{X: float64(i), Y: 0})
		}
		var tab []link
		for i := 0; i+1 < 80; i++ {
			tab = append(tab, link{i, i + 1, geom.LineString{nodePos[i], nodePos[i+1]}, []float64{1, 4, 2}[i%3], 1})
		}
		h := make([]int, len(tab))
		for i := range h {
			h[i] = i
		}
		var qs []geom.Point
		for k := 0; k < 12; k++ {
			qs = append(qs, geom.Point{X: 6.7*float64(k) + 0.2, Y: float64(k%5) - 2.3})
		}
		for _, opt := range []route.MinimizeOption{route.Distance, route.Time} {
			net, p := build(tab, h, opt)
			if p != "" {
				rep.Violation("AddLink|panic", map[string]interface{}{"history": "straight road of 80 nodes", "panic": p})
				continue
			}
			states++
			for _, from := range qs {
				for _, to := range qs {
					sym, det, skip := judge(tab, h, opt, net, from, to)
					queriesRun++
					if skip {
						skipped++
					}
					if sym != "" {
						o := "Distance"
						if opt == route.Time {
							o = "Time"
						}
						rep.Violation(fmt.Sprintf("ShortestRoute|%s|road-80|%s", o, sym), map[string]interface{}{"network": "80 nodes (i,0), i = 0..79, unit links between neighbours, speeds {1,4,2}[i%3]", "from": from, "to": to, "observed": det})
					}
				}
			}
		}
		nodePos = save
	}
	if rep.Expired() {
		rep.Cap("wall budget expired")
	}
	rep.AddStates(states)
	rep.AddTransitions(trans)
	rep.AddEvals(queriesRun + envExecs)
	rep.AddNontrivial(nontrivial)
	rep.AddSkipped(skipped)
	rep.Set("queries", queriesRun)
	rep.Set("map_order_executions", envExecs)
	rep.Finish()
}
