#!/bin/bash
# Instruments the route package (map iteration order -> explorer-controlled).
export GOFLAGS=-mod=mod GOPROXY=off GOSUMDB=off GOTOOLCHAIN=local
V="${VERIF_ROOT:-$(cd "$(dirname "$0")/../.." && pwd)}"
cd "$V" || exit 1
go build -o .build/instr ./instr || exit 1
rm -rf .build/c19-src
.build/instr -pkg github.com/ctessum/geom/route -out "$V/.build/c19-src" -overlay "$1" -maps
