// C07 — decoders are total on untrusted input. Engine E4: exhaustive
// single-fault enumeration over every valid encoding of a bounded corpus plus
// synthetic families, executed in isolated single-goroutine workers with an
// address-space limit; allocation measured exactly per call.
package main

import (
	"encoding/binary"
	stdhex "encoding/hex"
	"encoding/json"
	"fmt"
	"math"
	"os"
	"runtime"
	"strings"
	"time"

	"github.com/ctessum/geom"
	"github.com/ctessum/geom/encoding/geojson"
	"github.com/ctessum/geom/encoding/hex"
	"github.com/ctessum/geom/encoding/wkb"

	"verif/mc/fault"
	"verif/mc/geomgen"
	"verif/mc/report"
	"verif/mc/wkbref"
)

// Input is one materialised case.
type Input struct {
	Dec  string // "wkb", "hex", "geojson", "geojson-obj"
	Data []byte
	Obj  *geojson.Geometry
	Nil  bool // geojson-obj: pass a nil *Geometry
}

const (
	allocPerByte = 256
	allocFixed   = 64 << 10
)

var tier = "quick"

// ---- corpus ---------------------------------------------------------------------

func skeletons() []geomgen.Skel {
	cfg := geomgen.Config{MaxMembers: 2, Lens: []int{0, 1, 2}, FlatMax: 2, PolyRings: 2, Depth: 2, GCMembers: 2}
	if tier == "thorough" {
		cfg = geomgen.Config{MaxMembers: 2, Lens: []int{0, 1, 2, 3}, FlatMax: 3, PolyRings: 2, Depth: 3, GCMembers: 2}
	}
	var skels []geomgen.Skel
	for _, s := range geomgen.Simple(cfg) {
		if s.Kind != geomgen.KBounds {
			skels = append(skels, s)
		}
	}
	small := geomgen.Simple(geomgen.Config{MaxMembers: 1, Lens: []int{0, 1}, FlatMax: 1, PolyRings: 1})
	seen := map[string]bool{}
	for _, s := range geomgen.Collections(small, cfg) {
		if !seen[s.String()] {
			seen[s.String()] = true
			skels = append(skels, s)
		}
	}
	return skels
}

func buildGeom(s geomgen.Skel, rot int) geom.Geom {
	i := 0
	val := func() float64 {
		p := geomgen.BitPatterns[(i+rot)%len(geomgen.BitPatterns)]
		i++
		return math.Float64frombits(p)
	}
	return geomgen.Build(s, func() geom.Point { x := val(); y := val(); return geom.Point{X: x, Y: y} })
}

func buildFinite(s geomgen.Skel, rot int) geom.Geom {
	i := 0
	val := func() float64 {
		p := geomgen.FinitePatterns[(i+rot)%len(geomgen.FinitePatterns)]
		i++
		return p
	}
	return geomgen.Build(s, func() geom.Point { x := val(); y := val(); return geom.Point{X: x, Y: y} })
}

var countValues = []uint32{0, 1 << 8, 1 << 16, 1 << 24, 1 << 28, 1 << 31, 0xffffffff}
var typeValues = []uint32{0, 8, 9, 10, 11, 12, 13, 14, 15, 16, 17, 18, 19, 20, 1001, 1002, 1003, 1004, 1005, 1006, 1007, 0x20000001, 0x80000001, 0x01000000, 0x07000000}
var orderValues = []byte{2, 0xff}

func putU32(b []byte, little bool, v uint32) {
	if little {
		binary.LittleEndian.PutUint32(b, v)
	} else {
		binary.BigEndian.PutUint32(b, v)
	}
}

func getU32(b []byte, little bool) uint32 {
	if little {
		return binary.LittleEndian.Uint32(b)
	}
	return binary.BigEndian.Uint32(b)
}

// JSON value grammar
var jsonLeaves = []string{`1`, `"a"`, `null`, `true`, `{}`, `[]`}
var jsonSiblings = []string{`1`, `"a"`, `[1,2]`, `[[1,2]]`, `null`}

func jsonValues(depth int) []string {
	cur := append([]string{}, jsonLeaves...)
	for d := 1; d <= depth; d++ {
		next := append([]string{}, jsonLeaves...)
		for _, v := range cur {
			next = append(next, "["+v+"]")
			for _, w := range jsonSiblings {
				next = append(next, "["+v+","+w+"]", "["+w+","+v+"]")
			}
		}
		cur = next
	}
	return cur
}

var jsonTypes = []string{`"type":"Point",`, `"type":"MultiPoint",`, `"type":"LineString",`, `"type":"MultiLineString",`, `"type":"Polygon",`, `"type":"MultiPolygon",`,
	`"type":"GeometryCollection",`, `"type":"",`, `"type":"other",`, ``, `"type":null,`, `"type":7,`}

// enumerate visits every case in a fixed order. mk materialises the input.
func enumerate(visit func(idx int64, family string, nontrivial bool, mk func() Input)) {
	var idx int64
	emit := func(family string, nontrivial bool, mk func() Input) {
		visit(idx, family, nontrivial, mk)
		idx++
	}
	skels := skeletons()
	// --- WKB corpus faults (and the same through hex for the structural ones)
	for si := range skels {
		s := skels[si]
		for order := 0; order < 2; order++ {
			little := order == 1
			enc, fields, err := wkbref.Encode(buildGeom(s, 0), func(int) bool { return little })
			if err != nil {
				report.Harness("%v", err)
			}
			mut := func(f func(b []byte) []byte) func() Input {
				return func() Input { return Input{Dec: "wkb", Data: f(append([]byte{}, enc...))} }
			}
			hexmut := func(f func(b []byte) []byte) func() Input {
				return func() Input {
					return Input{Dec: "hex", Data: []byte(stdhex.EncodeToString(f(append([]byte{}, enc...))))}
				}
			}
			emit("wkb-valid", false, mut(func(b []byte) []byte { return b }))
			emit("hex-valid", false, hexmut(func(b []byte) []byte { return b }))
			// the same structure with every rotation of the coordinate patterns (NaNs
			// with payloads, infinities, signed zeros, subnormals in every position;
			// for a point every (x, y) pair of patterns)
			{
				np := len(geomgen.BitPatterns)
				nv := np
				if s.Kind == geomgen.KPoint {
					nv = np * np
				}
				for v := 1; v < nv; v++ {
					v := v
					mk := func() []byte {
						g := buildGeom(s, v)
						if s.Kind == geomgen.KPoint {
							g = geom.Point{X: math.Float64frombits(geomgen.BitPatterns[v/np]), Y: math.Float64frombits(geomgen.BitPatterns[v%np])}
						}
						e, _, err := wkbref.Encode(g, func(int) bool { return little })
						if err != nil {
							report.Harness("%v", err)
						}
						return e
					}
					emit("wkb-valid-values", true, func() Input { return Input{Dec: "wkb", Data: mk()} })
					if v%3 == 0 || s.Kind == geomgen.KPoint {
						emit("hex-valid-values", true, func() Input { return Input{Dec: "hex", Data: []byte(stdhex.EncodeToString(mk()))} })
					}
				}
			}
			emit("hex-valid-upper", false, func() Input {
				return Input{Dec: "hex", Data: []byte(strings.ToUpper(stdhex.EncodeToString(enc)))}
			})
			for l := 0; l < len(enc); l++ {
				l := l
				emit("wkb-prefix", true, mut(func(b []byte) []byte { return b[:l] }))
				emit("hex-prefix", true, hexmut(func(b []byte) []byte { return b[:l] }))
			}
			for bit := 0; bit < 8*len(enc); bit++ {
				bit := bit
				emit("wkb-bitflip", true, mut(func(b []byte) []byte { b[bit/8] ^= 1 << uint(bit%8); return b }))
			}
			for _, f := range fields {
				f := f
				switch f.Kind {
				case "count":
					n := getU32(enc[f.Off:], little)
					vals := append([]uint32{n + 1}, countValues...)
					if n > 0 {
						vals = append(vals, n-1)
					}
					for _, v := range vals {
						v := v
						emit("wkb-count", true, mut(func(b []byte) []byte { putU32(b[f.Off:], little, v); return b }))
						emit("hex-count", true, hexmut(func(b []byte) []byte { putU32(b[f.Off:], little, v); return b }))
					}
					// double fault: an inflated count followed by a truncation at every later offset
					big := []uint32{1 << 28}
					if tier == "thorough" {
						big = []uint32{1 << 16, 1 << 28, 0xffffffff}
					}
					for _, v := range big {
						for l := f.Off + 4; l < len(enc); l++ {
							v, l := v, l
							emit("wkb-count+prefix", true, mut(func(b []byte) []byte { putU32(b[f.Off:], little, v); return b[:l] }))
						}
					}
				case "type":
					for _, v := range typeValues {
						v := v
						emit("wkb-type", true, mut(func(b []byte) []byte { putU32(b[f.Off:], little, v); return b }))
					}
					for t := uint32(1); t <= 7; t++ {
						t := t
						emit("wkb-type-swap", true, mut(func(b []byte) []byte { putU32(b[f.Off:], little, t); return b }))
					}
				case "order":
					for _, v := range orderValues {
						v := v
						emit("wkb-order", true, mut(func(b []byte) []byte { b[f.Off] = v; return b }))
					}
					// flag flipped without re-encoding the element
					emit("wkb-order", true, mut(func(b []byte) []byte { b[f.Off] ^= 1; return b }))
				}
			}
			// hex-specific: character-level truncation and a non-hex character at each position
			hs := stdhex.EncodeToString(enc)
			step := 1
			if len(hs) > 120 {
				step = 7
			}
			for p := 0; p < len(hs); p += step {
				p := p
				emit("hex-oddlen", true, func() Input { return Input{Dec: "hex", Data: []byte(hs[:p])} })
				for _, c := range []byte{'g', ' ', 'Z', 0x80} {
					c := c
					emit("hex-badchar", true, func() Input { b := []byte(hs); b[p] = c; return Input{Dec: "hex", Data: b} })
				}
			}
		}
	}
	// --- valid encodings of long members (around the decoder's chunk sizes), both
	// byte orders, and every prefix length that is a multiple of 997 bytes
	for _, nv := range []int{255, 256, 257, 300, 1023, 1025, 4097} {
		for kind := 0; kind < 4; kind++ {
			for order := 0; order < 2; order++ {
				nv, kind, little := nv, kind, order == 1
				mk := func() []byte {
					pts := make([]geom.Point, nv)
					for i := range pts {
						pts[i] = geom.Point{X: float64(i) + 0.25, Y: float64(i*i%977) - 3.5}
					}
					var g geom.Geom
					switch kind {
					case 0:
						g = geom.LineString(pts)
					case 1:
						g = geom.MultiPoint(pts)
					case 2:
						g = geom.Polygon{geom.Path(pts[:3]), geom.Path(pts)}
					default:
						g = geom.GeometryCollection{geom.MultiLineString{geom.LineString(pts[:2]), geom.LineString(pts)}, geom.Point{X: 1, Y: 2}}
					}
					e, _, err := wkbref.Encode(g, func(int) bool { return little })
					if err != nil {
						report.Harness("%v", err)
					}
					return e
				}
				emit("wkb-valid-long", true, func() Input { return Input{Dec: "wkb", Data: mk()} })
				if nv <= 1025 {
					emit("hex-valid-long", true, func() Input { return Input{Dec: "hex", Data: []byte(stdhex.EncodeToString(mk()))} })
				}
				for l := 997; l < 9+16*nv; l += 997 {
					l := l
					emit("wkb-long-prefix", true, func() Input { b := mk(); return Input{Dec: "wkb", Data: b[:l]} })
				}
			}
		}
	}
	// --- synthetic WKB families
	for l := 0; l <= 2; l++ {
		n := 1
		for i := 0; i < l; i++ {
			n *= 256
		}
		for v := 0; v < n; v++ {
			l, v := l, v
			emit("wkb-short", l > 0, func() Input {
				b := make([]byte, l)
				for i := 0; i < l; i++ {
					b[i] = byte(v >> uint(8*i))
				}
				return Input{Dec: "wkb", Data: b}
			})
		}
	}
	allTypes := append([]uint32{1, 2, 3, 4, 5, 6, 7}, typeValues...)
	for ob := 0; ob < 256; ob++ {
		for _, t := range allTypes {
			for enc := 0; enc < 2; enc++ {
				ob, t, enc := ob, t, enc
				emit("wkb-header", true, func() Input {
					b := make([]byte, 5)
					b[0] = byte(ob)
					putU32(b[1:], enc == 1, t)
					return Input{Dec: "wkb", Data: b}
				})
			}
		}
	}
	// header + inflated count and nothing else (the nine-byte message)
	for t := uint32(2); t <= 7; t++ {
		for order := 0; order < 2; order++ {
			for _, c := range append([]uint32{1, 2, 255}, countValues...) {
				for extra := 0; extra <= 20; extra += 5 {
					t, order, c, extra := t, order, c, extra
					emit("wkb-nine-byte", true, func() Input {
						b := make([]byte, 9+extra)
						b[0] = byte(order)
						putU32(b[1:], order == 1, t)
						putU32(b[5:], order == 1, c)
						for i := 9; i < len(b); i++ {
							b[i] = byte(order) // plausible continuation bytes
						}
						return Input{Dec: "wkb", Data: b}
					})
				}
			}
		}
	}
	// many real members behind an inflated count (the count must not be trusted
	// later either, e.g. when a pre-allocated buffer fills up)
	for _, typ := range []uint32{2, 3, 4, 5, 6, 7} {
		for order := 0; order < 2; order++ {
			for _, members := range []int{31, 32, 33, 40, 300} {
				for _, cnt := range []uint32{1 << 20, 1 << 22, 1 << 28, 0xffffffff} {
					typ, order, members, cnt := typ, order, members, cnt
					emit("wkb-many-members-inflated-count", true, func() Input {
						little := order == 1
						var g geom.Geom
						pt := func(i int) geom.Point { return geom.Point{X: float64(i), Y: float64(-i)} }
						switch typ {
						case 2:
							l := make(geom.LineString, members)
							for i := range l {
								l[i] = pt(i)
							}
							g = l
						case 3:
							p := make(geom.Polygon, members)
							for i := range p {
								p[i] = geom.Path{pt(i)}
							}
							g = p
						case 4:
							m := make(geom.MultiPoint, members)
							for i := range m {
								m[i] = pt(i)
							}
							g = m
						case 5:
							m := make(geom.MultiLineString, members)
							for i := range m {
								m[i] = geom.LineString{pt(i)}
							}
							g = m
						case 6:
							m := make(geom.MultiPolygon, members)
							for i := range m {
								m[i] = geom.Polygon{{pt(i)}}
							}
							g = m
						default:
							m := make(geom.GeometryCollection, members)
							for i := range m {
								m[i] = pt(i)
							}
							g = m
						}
						b, fields, _ := wkbref.Encode(g, func(int) bool { return little })
						for _, f := range fields {
							if f.Kind == "count" && f.Elem == 0 {
								putU32(b[f.Off:], little, cnt)
								break
							}
						}
						return Input{Dec: "wkb", Data: b}
					})
				}
			}
		}
	}
	var depths []int
	for d := 1; d <= 64; d++ {
		depths = append(depths, d)
	}
	depths = append(depths, 128, 1024, 7281)
	for _, d := range depths {
		for order := 0; order < 2; order++ {
			for variant := 0; variant < 4; variant++ {
				d, order, variant := d, order, variant
				emit("wkb-nest", true, func() Input {
					little := order == 1
					var b []byte
					for i := 0; i < d; i++ {
						h := make([]byte, 9)
						h[0] = byte(order)
						putU32(h[1:], little, 7)
						cnt := uint32(1)
						if variant == 3 {
							cnt = 0xffffffff
						}
						putU32(h[5:], little, cnt)
						b = append(b, h...)
					}
					switch variant {
					case 0, 3: // innermost: a point
						p, _, _ := wkbref.Encode(geom.Point{X: 1, Y: 2}, func(int) bool { return little })
						b = append(b, p...)
					case 1: // innermost missing
					case 2: // innermost: empty collection
						h := make([]byte, 9)
						h[0] = byte(order)
						putU32(h[1:], little, 7)
						b = append(b, h...)
					}
					return Input{Dec: "wkb", Data: b}
				})
			}
		}
	}
	// --- GeoJSON
	depth := 3
	if tier == "thorough" {
		depth = 4
	}
	vals := jsonValues(depth)
	for _, t := range jsonTypes {
		for vi := range vals {
			t, vi := t, vi
			emit("geojson-value", true, func() Input {
				return Input{Dec: "geojson", Data: []byte("{" + t + `"coordinates":` + vals[vi] + "}")}
			})
		}
		t := t
		emit("geojson-nocoords", true, func() Input {
			return Input{Dec: "geojson", Data: []byte("{" + strings.TrimSuffix(t, ",") + "}")}
		})
	}
	for _, doc := range []string{``, `null`, `[]`, `7`, `"x"`, `{}`, `{"type":"Point","coordinates":[1,2]}x`, `{"type":"Point","coordinates":[1e999,2]}`,
		`{"type":"Point","coordinates":[1,2],"coordinates":[3]}`, `{"TYPE":"Point","Coordinates":[1,2]}`, `{"type":"Point","coordinates":[1,2,3]}`,
		`{"type":"LineString","coordinates":[[1,2],[3]]}`, `{"type":"Polygon","coordinates":[[[1,2]],[[3,4,5]]]}`, `{"type":"MultiPolygon","coordinates":[[[[1,2]]],[[[3]]]]}`,
		`{"type":"MultiPoint","coordinates":[[1,2],[]]}`, `{"type":"MultiLineString","coordinates":[[[1,2]],[[]]]}`,
		// the other RFC 7946 object types, well formed (whatever the decoder makes
		// of them must be a geometry it can encode again, or an error)
		`{"type":"GeometryCollection","geometries":[{"type":"Point","coordinates":[1,2]}]}`,
		`{"type":"GeometryCollection","geometries":[{"type":"Point","coordinates":[1,2]},{"type":"LineString","coordinates":[[1,2],[3,4]]}]}`,
		`{"type":"GeometryCollection","geometries":[{"type":"GeometryCollection","geometries":[{"type":"Polygon","coordinates":[[[0,0],[1,0],[1,1],[0,0]]]}]},{"type":"MultiPoint","coordinates":[[5,6]]}]}`,
		`{"type":"GeometryCollection","geometries":[]}`, `{"type":"GeometryCollection"}`, `{"type":"GeometryCollection","geometries":[null]}`, `{"type":"GeometryCollection","geometries":[{"type":"Point"}]}`,
		`{"type":"GeometryCollection","coordinates":[1,2],"geometries":[{"type":"Point","coordinates":[1,2]}]}`,
		`{"type":"Feature","geometry":{"type":"Point","coordinates":[1,2]},"properties":{}}`, `{"type":"Feature","geometry":null,"properties":null}`,
		`{"type":"FeatureCollection","features":[{"type":"Feature","geometry":{"type":"LineString","coordinates":[[1,2],[3,4]]},"properties":{"a":1}}]}`,
		`{"type":"Point","coordinates":[1,2],"bbox":[1,2,1,2]}`, `{"type":"Point","coordinates":[1,2],"crs":{"type":"name","properties":{"name":"EPSG:4326"}}}`,
		`{"type":"point","coordinates":[1,2]}`, `{"type":"POINT","coordinates":[1,2]}`, `{"type":"MultiGeometry","geometries":[{"type":"Point","coordinates":[1,2]}]}`} {
		doc := doc
		emit("geojson-doc", true, func() Input { return Input{Dec: "geojson", Data: []byte(doc)} })
	}
	for si := range skels {
		s := skels[si]
		if s.Kind == geomgen.KCollection || !geomgen.FirstMemberNonEmpty(s) {
			continue
		}
		doc, err := geojson.Encode(buildFinite(s, si))
		if err != nil {
			continue
		}
		emit("geojson-valid", false, func() Input { return Input{Dec: "geojson", Data: doc} })
		for l := 0; l < len(doc); l++ {
			l := l
			emit("geojson-prefix", true, func() Input { return Input{Dec: "geojson", Data: doc[:l]} })
		}
	}
	// deep nesting
	for _, d := range []int{5, 6, 100, 9999, 10001, 30000} {
		for _, t := range jsonTypes[:6] {
			d, t := d, t
			emit("geojson-deep", true, func() Input {
				return Input{Dec: "geojson", Data: []byte("{" + t + `"coordinates":` + strings.Repeat("[", d) + "1" + strings.Repeat("]", d) + "}")}
			})
		}
	}
	// large irregular documents (up to 64 KiB): one very long position among
	// thousands of others (first, middle, last), thousands of empty positions,
	// square-ish shapes; a decoder must not multiply two lengths of the input
	rep := func(item string, n int) string {
		if n == 0 {
			return ""
		}
		return strings.Repeat(item+",", n-1) + item
	}
	long := func(n int) string { return "[" + rep("1", n) + "]" }
	join := func(parts ...string) string {
		var o []string
		for _, p := range parts {
			if p != "" {
				o = append(o, p)
			}
		}
		return "[" + strings.Join(o, ",") + "]"
	}
	shapes := []string{
		join(long(6000), rep("[]", 6000)),
		join(rep("[]", 6000), long(6000)),
		join(rep("[]", 3000), long(6000), rep("[]", 3000)),
		join(long(6000), rep("[1,2]", 4000)),
		join(rep("[1,2]", 4000), long(6000)),
		join(rep(long(150), 150)),
		join(long(20000), "[]"),
		join(rep("[]", 20000)),
		join(join(long(5000), rep("[]", 5000))),
		join(join(join(long(5000), rep("[]", 5000)))),
		join(join(long(3), rep("[1,2]", 3000)), join(long(3000), rep("[]", 3000))),
	}
	for _, t := range jsonTypes[:6] {
		for si := range shapes {
			t, si := t, si
			emit("geojson-large", true, func() Input {
				return Input{Dec: "geojson", Data: []byte("{" + t + `"coordinates":` + shapes[si] + "}")}
			})
		}
	}
	// --- Geometry values handed to FromGeoJSON
	objCoords := []interface{}{nil, []float64{1, 2}, [][]float64{{1, 2}}, [][][]float64{{{1, 2}}}, []interface{}{1.0, 2.0}, []interface{}{1, 2}, []interface{}{1.0},
		map[string]interface{}{}, "str", 3.5, []interface{}{[]interface{}{1.0, 2.0}}, []interface{}{[]float64{1, 2}}, []interface{}{[]interface{}{[]interface{}{1.0, 2.0}}},
		[]interface{}{[]interface{}{[]interface{}{[]interface{}{1.0, 2.0}}}}, []interface{}{[]interface{}{}}, []interface{}{}, []interface{}{nil}, []interface{}{[]interface{}{nil, 1.0}},
		[]interface{}{[]interface{}{1.0, 2.0}, []interface{}{3.0}}, []interface{}{[]interface{}{1.0, 2.0}, nil}, json.Number("1"), []interface{}{json.Number("1"), json.Number("2")}}
	objTypes := []string{"Point", "MultiPoint", "LineString", "MultiLineString", "Polygon", "MultiPolygon", "GeometryCollection", "", "point"}
	for _, t := range objTypes {
		for ci := range objCoords {
			t, ci := t, ci
			emit("geojson-obj", true, func() Input {
				return Input{Dec: "geojson-obj", Obj: &geojson.Geometry{Type: t, Coordinates: objCoords[ci]}}
			})
		}
	}
	emit("geojson-obj", true, func() Input { return Input{Dec: "geojson-obj", Nil: true} })
}

// ---- execution -------------------------------------------------------------------

func decode(in Input) (g geom.Geom, err error, pan string) {
	defer func() {
		if r := recover(); r != nil {
			pan = fmt.Sprint(r)
		}
	}()
	switch in.Dec {
	case "wkb":
		g, err = wkb.Decode(in.Data)
	case "hex":
		g, err = hex.Decode(string(in.Data))
	case "geojson":
		g, err = geojson.Decode(in.Data)
	case "geojson-obj":
		if in.Nil {
			g, err = geojson.FromGeoJSON(nil)
		} else {
			g, err = geojson.FromGeoJSON(in.Obj)
		}
	}
	return
}

func isNilGeom(g geom.Geom) bool {
	if g == nil {
		return true
	}
	if b, ok := g.(*geom.Bounds); ok && b == nil {
		return true
	}
	return false
}

func wellFormed(g geom.Geom) bool {
	switch t := g.(type) {
	case geom.Point, geom.MultiPoint, geom.LineString, geom.MultiLineString, geom.Polygon, geom.MultiPolygon:
		return true
	case geom.GeometryCollection:
		for _, m := range t {
			if isNilGeom(m) || !wellFormed(m) {
				return false
			}
		}
		return true
	}
	return false
}

var m0, m1 runtime.MemStats

// execute returns symptom ("" if fine), detail, and the allocation ratio.
func execute(in Input) (string, string, float64) {
	runtime.ReadMemStats(&m0)
	g, err, pan := decode(in)
	runtime.ReadMemStats(&m1)
	alloc := m1.TotalAlloc - m0.TotalAlloc
	if pan != "" {
		return "panic", pan, 0
	}
	if (err == nil) == isNilGeom(g) {
		return "neither-or-both", fmt.Sprintf("geometry=%v err=%v", g, err), 0
	}
	n := len(in.Data)
	ratio := 0.0
	if in.Dec != "geojson-obj" {
		if alloc > uint64(allocPerByte*n+allocFixed) {
			return "alloc-exceeds-bound", fmt.Sprintf("%d bytes allocated for %d input bytes (bound %d*len+%d)", alloc, n, allocPerByte, allocFixed), 0
		}
		ratio = float64(alloc) / float64(n+1)
	} else if alloc > 1<<20 {
		return "alloc-exceeds-bound", fmt.Sprintf("%d bytes allocated for a small Geometry value", alloc), 0
	}
	if err != nil {
		return "", "", ratio
	}
	if !wellFormed(g) {
		return "malformed-geometry", fmt.Sprintf("%#v", g), ratio
	}
	// successful decode => re-encode / decode fixed point
	var g2 geom.Geom
	var e2 error
	var p2 string
	switch in.Dec {
	case "wkb", "hex":
		var enc []byte
		func() {
			defer func() {
				if r := recover(); r != nil {
					p2 = fmt.Sprint(r)
				}
			}()
			// both byte orders (and the hex codec for hex inputs): the second must
			// reproduce the geometry as well
			enc, e2 = wkb.Encode(g, wkb.XDR)
			if e2 == nil {
				g2, e2 = wkb.Decode(enc)
			}
			if e2 == nil && geomgen.Diff(g, g2, true) == "" {
				enc, e2 = wkb.Encode(g, wkb.NDR)
				if e2 == nil {
					g2, e2 = wkb.Decode(enc)
				}
			}
		}()
	default:
		func() {
			defer func() {
				if r := recover(); r != nil {
					p2 = fmt.Sprint(r)
				}
			}()
			var enc []byte
			enc, e2 = geojson.Encode(g)
			if e2 == nil {
				g2, e2 = geojson.Decode(enc)
			}
		}()
	}
	if p2 != "" || e2 != nil {
		return "reencode-failed", fmt.Sprintf("panic=%q err=%v geometry=%#v", p2, e2, g), ratio
	}
	if d := geomgen.Diff(g, g2, true); d != "" {
		return "reencode-differs", d, ratio
	}
	return "", "", ratio
}

func describeInput(in Input) map[string]interface{} {
	d := map[string]interface{}{"decoder": in.Dec}
	switch in.Dec {
	case "wkb":
		b := in.Data
		if len(b) > 200 {
			d["len"] = len(b)
			b = b[:200]
		}
		d["hex"] = stdhex.EncodeToString(b)
	case "hex", "geojson":
		b := in.Data
		if len(b) > 400 {
			d["len"] = len(b)
			b = b[:400]
		}
		d["text"] = string(b)
	default:
		if in.Nil {
			d["obj"] = "nil *Geometry"
		} else {
			d["obj"] = fmt.Sprintf("%#v", *in.Obj)
		}
	}
	return d
}

func worker(shard, nshards int, start int64, announce func(int64), viol func(int64, string, interface{})) fault.Summary {
	sum := fault.Summary{Counters: map[string]int64{}}
	enumerate(func(idx int64, family string, nontrivial bool, mk func() Input) {
		if idx < start || idx%int64(nshards) != int64(shard) {
			return
		}
		announce(idx)
		in := mk()
		sym, det, ratio := execute(in)
		sum.Cases++
		sum.Counters[family]++
		if nontrivial {
			sum.Nontrivial++
		}
		if ratio > sum.MaxRatio {
			sum.MaxRatio = ratio
		}
		if sym != "" {
			d := describeInput(in)
			d["observed"] = det
			d["family"] = family
			d["idx"] = idx
			viol(idx, fmt.Sprintf("%s|%s|%s", in.Dec, family, sym), d)
		}
		if len(sum.Samples) < 2 && idx%997 == int64(shard) {
			sum.Samples = append(sum.Samples, fmt.Sprintf("%s: %v", family, describeInput(in)))
		}
	})
	return sum
}

func main() {
	if t := os.Getenv("VERIF_TIER"); t != "" {
		tier = t
	}
	fault.IsWorker(worker)
	if len(os.Args) > 1 {
		tier = os.Args[1]
	}
	if tier == "replay" {
		b, err := os.ReadFile(os.Args[2])
		if err != nil {
			report.Harness("%v", err)
		}
		var f struct{ Case struct{ Idx int64 } }
		json.Unmarshal(b, &f)
		tier = "thorough"
		found := false
		for _, t := range []string{"quick", "thorough"} {
			tier = t
			enumerate(func(idx int64, family string, _ bool, mk func() Input) {
				if idx == f.Case.Idx && !found {
					found = true
					in := mk()
					sym, det, _ := execute(in)
					fmt.Printf("tier %s case %d family %s input %v\nresult: %q %s\n", t, idx, family, describeInput(in), sym, det)
				}
			})
		}
		return
	}
	os.Setenv("VERIF_TIER", tier)
	r := report.New("C07", tier, "fault_enumeration")
	r.Rule = "E4: for every valid WKB encoding of the bounded structure-tree corpus (both byte orders): every prefix, every single-bit flip, every count field <- {0,n-1,n+1,2^8,2^16,2^24,2^28,2^31,2^32-1}, every inflated count combined with a truncation at every later offset (double fault), every type code <- 25 foreign values and 1..7, every byte-order flag <- {flipped,2,0xff}; the structural faults again through the hex decoder plus odd length / non-hex character at every position; all byte strings of length <=2, all (order byte, type code) headers, nine-byte inflated-count messages, 31..300 real members behind an inflated count, collections nested to depth 1..64,128,1024,7281; GeoJSON: 12 type spellings x all JSON values of depth<=3(4) over 6 leaves, every prefix of every valid document, deep nesting, 11 large irregular coordinate shapes of 30..60 KiB (one very long position among thousands, thousands of empty positions, square shapes) per type, typed Geometry values and nil. Oracle: no panic, exactly one of geometry/error, bytes allocated (exact TotalAlloc delta in a single-goroutine worker) <= 256*len+64KiB, success => re-encode (both byte orders) / decode fixed point. Non-trivial = every faulted (non-valid-corpus) input."
	r.Assumptions = []string{"single faults (plus the count+truncation double fault); inputs are derived from the corpus or from the listed synthetic families", "allocation bound constants 256 B/byte + 64 KiB chosen with >= 4x head-room over the valid corpus (max ratio reported as max_alloc_ratio)"}
	sum := fault.Sweep(r, 16, 4<<20, 90*time.Second, func(idx int64) (string, interface{}) {
		var sig string
		var det interface{}
		enumerate(func(i int64, family string, _ bool, mk func() Input) {
			if i == idx {
				in := mk()
				d := describeInput(in)
				d["family"] = family
				d["idx"] = idx
				d["observed"] = "worker process died or stopped responding while decoding this input (out of memory / hang)"
				sig = fmt.Sprintf("%s|%s|worker-died", in.Dec, family)
				det = d
			}
		})
		return sig, det
	})
	r.AddEvals(sum.Cases)
	r.AddNontrivial(sum.Nontrivial)
	r.Set("families", sum.Counters)
	r.Set("max_alloc_ratio_bytes_per_input_byte", sum.MaxRatio)
	for _, s := range sum.Samples {
		r.Sample(12, s)
	}
	if r.Expired() {
		r.Cap("wall budget expired")
	}
	r.Finish()
}
