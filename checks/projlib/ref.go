package projlib

import (
	"bytes"
	"compress/gzip"
	"crypto/sha256"
	"encoding/json"
	"fmt"
	"io"
	"math"
	"os"
	"os/exec"
	"path/filepath"

	"verif/mc/report"
)

// Req is one reference request: transform Pts from Src to Dst.
type Req struct {
	Src string       `json:"src"`
	Dst string       `json:"dst"`
	Pts [][2]float64 `json:"pts"`
	// Fields asks for the derived fields of the two parsed definitions instead of a transformation.
	Fields bool `json:"fields,omitempty"`
}

// Fields are the exported fields of a parsed definition that C09 compares.
type Fields struct {
	A             float64    `json:"a"`
	B             float64    `json:"b"`
	Rf            *float64   `json:"rf"`
	Es            float64    `json:"es"`
	DatumParams   []*float64 `json:"datum_params"`
	FromGreenwich *float64   `json:"from_greenwich"`
	ToMeter       *float64   `json:"to_meter"`
}

// Res is the reference answer (nil point: proj4js produced a non-finite value
// or threw).
type Res struct {
	Points []*[2]float64 `json:"points"`
	Error  string        `json:"error,omitempty"`
	Fields []Fields      `json:"fields,omitempty"`
}

type golden struct {
	Hash    string `json:"request_hash"`
	Results []Res  `json:"results"`
}

func libDir() string {
	r := os.Getenv("VERIF_REPO")
	if r == "" {
		r = "/repo"
	}
	return filepath.Join(r, "proj", "proj4js-2.3.12", "lib")
}

// NodeAvailable reports whether node can be run.
func NodeAvailable() bool {
	_, err := exec.LookPath("node")
	return err == nil
}

func runNode(in []byte, args ...string) ([]byte, error) {
	cmd := exec.Command("node", append([]string{filepath.Join(report.Root(), "ref", "proj4ref.js"), libDir()}, args...)...)
	cmd.Stdin = bytes.NewReader(in)
	var out, errb bytes.Buffer
	cmd.Stdout, cmd.Stderr = &out, &errb
	if err := cmd.Run(); err != nil {
		return nil, fmt.Errorf("node: %v: %s", err, errb.String())
	}
	return out.Bytes(), nil
}

// Reference evaluates the requests with the vendored proj4js 2.3.12 under node
// and cross-checks them with the committed golden file ref/golden/<name>.json.gz
// (written when absent or when VERIF_REGEN_GOLDEN=1; never overwritten otherwise). Without node the golden
// values are used; they must belong to exactly this request list.
func Reference(name string, reqs []Req) ([]Res, string) {
	in, _ := json.Marshal(map[string]interface{}{"requests": reqs})
	h := sha256.Sum256(in)
	hash := fmt.Sprintf("%x", h[:16])
	gpath := filepath.Join(report.Root(), "ref", "golden", name+".json.gz")
	var g *golden
	if f, err := os.Open(gpath); err == nil {
		zr, err := gzip.NewReader(f)
		if err == nil {
			b, _ := io.ReadAll(zr)
			g = &golden{}
			if json.Unmarshal(b, g) != nil {
				g = nil
			}
		}
		f.Close()
	}
	if !NodeAvailable() {
		if g == nil || g.Hash != hash {
			report.Harness("node is not available and ref/golden/%s.json.gz does not match this request list", name)
		}
		return g.Results, "golden (node not available)"
	}
	out, err := runNode(in)
	if err != nil {
		report.Harness("%v", err)
	}
	var r struct{ Results []Res }
	if err := json.Unmarshal(out, &r); err != nil || len(r.Results) != len(reqs) {
		report.Harness("bad reference output: %v", err)
	}
	src := "node (vendored proj4js 2.3.12)"
	if g != nil && g.Hash == hash && os.Getenv("VERIF_REGEN_GOLDEN") == "" {
		// cross-check
		for i := range r.Results {
			a, b := r.Results[i].Points, g.Results[i].Points
			if len(a) != len(b) {
				report.Harness("golden %s: request %d has %d points, node gives %d", name, i, len(b), len(a))
			}
			for j := range a {
				if (a[j] == nil) != (b[j] == nil) || (a[j] != nil && (math.Abs(a[j][0]-b[j][0]) > 1e-9*math.Max(1, math.Abs(a[j][0])) || math.Abs(a[j][1]-b[j][1]) > 1e-9*math.Max(1, math.Abs(a[j][1])))) {
					report.Harness("golden %s disagrees with node at request %d point %d", name, i, j)
				}
			}
		}
		src += ", cross-checked with committed golden"
	} else if g != nil && os.Getenv("VERIF_REGEN_GOLDEN") == "" {
		// the committed golden belongs to another request list (the code under
		// check produced other cases): use node's answers, leave the file alone
		src += ", committed golden is for another request list (kept; VERIF_REGEN_GOLDEN=1 rewrites it)"
	} else {
		os.MkdirAll(filepath.Dir(gpath), 0o755)
		b, _ := json.Marshal(golden{Hash: hash, Results: r.Results})
		var zb bytes.Buffer
		zw := gzip.NewWriter(&zb)
		zw.Write(b)
		zw.Close()
		os.WriteFile(gpath, zb.Bytes(), 0o644)
		src += ", golden (re)written"
	}
	return r.Results, src
}

// Tables returns the proj4js constant tables (Ellipsoid, Datum, PrimeMeridian,
// units) as generic JSON, from node or from the committed golden copy.
func Tables() (map[string]map[string]interface{}, string) {
	gpath := filepath.Join(report.Root(), "ref", "golden", "tables.json")
	var out []byte
	src := "golden"
	if NodeAvailable() {
		o, err := runNode(nil, "tables")
		if err != nil {
			report.Harness("%v", err)
		}
		out = o
		src = "node"
		if old, err := os.ReadFile(gpath); err != nil || os.Getenv("VERIF_REGEN_GOLDEN") != "" {
			os.MkdirAll(filepath.Dir(gpath), 0o755)
			os.WriteFile(gpath, out, 0o644)
		} else if !bytes.Equal(bytes.TrimSpace(old), bytes.TrimSpace(out)) {
			report.Harness("ref/golden/tables.json differs from the vendored proj4js tables")
		}
	} else {
		b, err := os.ReadFile(gpath)
		if err != nil {
			report.Harness("node is not available and ref/golden/tables.json is missing")
		}
		out = b
	}
	var t map[string]map[string]interface{}
	if err := json.Unmarshal(out, &t); err != nil {
		report.Harness("tables: %v", err)
	}
	return t, src
}

// GoldenMatches reports whether the committed golden file belongs to exactly
// this request list.
func GoldenMatches(name string, reqs []Req) bool {
	in, _ := json.Marshal(map[string]interface{}{"requests": reqs})
	h := sha256.Sum256(in)
	f, err := os.Open(filepath.Join(report.Root(), "ref", "golden", name+".json.gz"))
	if err != nil {
		return false
	}
	defer f.Close()
	zr, err := gzip.NewReader(f)
	if err != nil {
		return false
	}
	b, _ := io.ReadAll(zr)
	var g golden
	return json.Unmarshal(b, &g) == nil && g.Hash == fmt.Sprintf("%x", h[:16])
}
