// Package projlib holds what the projection checks (C08, C09, C10, C20)
// share: the configuration / position lattice, the proj4js reference driver
// with committed golden values, and independent reference formulas.
package projlib

import (
	"fmt"
	"sort"
	"strings"
)

// Def is one self-consistent CRS definition of the lattice.
type Def struct {
	Name     string // short label
	Proj     string // projection id (merc, lcc, ...)
	Params   string // projection parameters (PROJ.4)
	Ellps    string // ellipsoid / datum / unit / pm options (PROJ.4)
	Proj4    string // full projected definition
	Geo      string // the definition's own geographic base (same ellipsoid, datum, prime meridian)
	HasDatum bool   // a datum relation to WGS84 is stated (named datum or towgs84)
	ToMeter  float64
	Pm       float64      // prime meridian, degrees east of Greenwich
	Pts      [][2]float64 // geographic positions (lon, lat in degrees, relative to Greenwich) inside the usable region
	Option   string       // which option departs from the default ("base", "ellps=...", ...)
	C09Only  bool         // compared with proj4js only, not part of the round trips of C08
}

// Ellipsoid names of proj4js 2.3.12 (also checked against the Go table by C09).
var EllipsoidNames = []string{"MERIT", "SGS85", "GRS80", "IAU76", "airy", "APL4", "NWL9D", "mod_airy", "andrae", "aust_SA", "GRS67", "bessel", "bess_nam", "clrk66", "clrk80", "clrk58", "CPM", "delmbr", "engelis", "evrst30", "evrst48", "evrst56", "evrst69", "evrstSS", "fschr60", "fschr60m", "fschr68", "helmert", "hough", "intl", "kaula", "lerch", "mprts", "new_intl", "plessis", "krass", "SEasia", "walbeck", "WGS60", "WGS66", "WGS7", "WGS84"}

// DatumNames of proj4js 2.3.12 that carry towgs84 parameters (grid-shift datums are not supported by the port).
var DatumNames = []string{"wgs84", "ch1903", "ggrs87", "nad83", "potsdam", "carthage", "hermannskogel", "ire65", "rassadiran", "nzgd49", "osgb36", "s_jtsk", "beduaram", "gunung_segara", "rnb72"}

type option struct {
	label    string
	text     string
	hasDatum bool
	toMeter  float64
	pm       float64 // degrees east of Greenwich
}

func options(full bool) []option {
	o := []option{
		{"base", "+datum=WGS84", true, 1, 0},
		{"towgs84-7", "+ellps=bessel +towgs84=577.326,90.129,463.919,5.137,1.474,5.297,2.4232", true, 1, 0},
		{"towgs84-3", "+ellps=intl +towgs84=-87,-98,-121", true, 1, 0},
		{"units=ft", "+datum=WGS84 +units=ft", true, 0.3048, 0},
		{"units=us-ft", "+ellps=GRS80 +towgs84=0,0,0 +units=us-ft", true, 1200.0 / 3937.0, 0},
		// a sphere of the WGS84 radius on the WGS84 datum (the pair with the GRS80
		// option before it has equal a, different flattening and no shift). Compared
		// with proj4js only (C09): the ellipsoid change loses up to 21 km of
		// ellipsoidal height, which no two-dimensional round trip survives
		{"sphere+datum=WGS84", "+a=6378137 +b=6378137 +datum=WGS84", true, 1, 0},
		// two ellipsoids with the same flattening and different axes, both declared
		// equivalent to WGS84 (compared with proj4js only, like the sphere above)
		{"zero-shift:bessel", "+ellps=bessel +towgs84=0,0,0", true, 1, 0},
		{"zero-shift:bess_nam", "+ellps=bess_nam +towgs84=0,0,0", true, 1, 0},
		{"sphere", "+a=6370997 +b=6370997", false, 1, 0},
		// pairs of options that interact: a prime meridian together with a datum
		// shift, and a 7-term shift whose translations are zero
		{"pm=paris+towgs84-3", "+ellps=clrk80 +towgs84=-168,-60,320 +pm=paris", true, 1, 2.337229166667},
		{"towgs84-7-rotation-only", "+ellps=intl +towgs84=0,0,0,0.35,-0.12,1.1,2.5", true, 1, 0},
		// ... and one whose rotations are zero but whose scale is not
		{"towgs84-7-zero-rotations", "+ellps=intl +towgs84=-87,-98,-121,0,0,0,5.2", true, 1, 0},
		// ... a translation-only shift written with seven values, and feet on a shifted datum
		{"towgs84-7-zero-tail", "+ellps=clrk66 +towgs84=-8,160,176,0,0,0,0", true, 1, 0},
		{"units=ft+towgs84-3", "+ellps=intl +towgs84=-87,-98,-121 +units=ft", true, 0.3048, 0},
		// the one built-in datum without shift parameters on another ellipsoid
		// (a pure ellipsoid change)
		{"datum=NAD27", "+datum=NAD27", true, 1, 0},
		// a named datum together with an ellipsoid that is not the datum's own: the
		// datum's ellipsoid wins (as in proj4js)
		{"datum=potsdam+ellps=intl", "+ellps=intl +datum=potsdam", true, 1, 0},
		{"datum=osgb36+ellps=WGS84", "+datum=osgb36 +ellps=WGS84", true, 1, 0},
		// a unit given by its length (the yard) instead of by name
		{"to_meter=0.9144", "+datum=WGS84 +to_meter=0.9144", true, 0.9144, 0},
	}
	if !full {
		return o
	}
	o = append(o,
		option{"a+rf", "+a=6377397.155 +rf=299.1528128", false, 1, 0},
		option{"a+b", "+a=6378388 +b=6356911.946", false, 1, 0},
		option{"pm=paris", "+datum=WGS84 +pm=paris", true, 1, 2.337229166667},
		option{"pm=-17.5", "+ellps=clrk80 +pm=-17.5", false, 1, -17.5},
	)
	for _, e := range EllipsoidNames {
		o = append(o, option{"ellps=" + e, "+ellps=" + e, false, 1, 0})
	}
	for _, d := range DatumNames {
		if d == "NAD27" {
			continue // already in the quick list
		}
		o = append(o, option{"datum=" + d, "+datum=" + d, true, 1, 0})
	}
	return o
}

type param struct {
	proj   string
	text   string
	lon0   float64
	region string // "merc", "north", "south", "tm", "krovak"
}

func params() []param {
	var p []param
	// Mercator
	for _, lon0 := range []float64{0, -75.5, -8, -17} {
		p = append(p,
			param{"merc", fmt.Sprintf("+proj=merc +lon_0=%g +x_0=0 +y_0=0", lon0), lon0, "merc"},
			param{"merc", fmt.Sprintf("+proj=merc +lon_0=%g +lat_ts=30 +x_0=500000 +y_0=-2000000", lon0), lon0, "merc"},
			param{"merc", fmt.Sprintf("+proj=merc +lon_0=%g +k_0=0.9996", lon0), lon0, "merc"},
		)
	}
	// conics: six asymmetric standard-parallel pairs incl. 1SP and southern cones
	// (index 6: one parallel away from the latitude of origin; index 7: +lat_2 omitted)
	pairs := [][2]float64{{33, 45}, {45, 33}, {20, 60}, {-20, -50}, {40, 40}, {10, 30}, {50, 50}, {-35, -35}, {55, 75}}
	for _, pr := range []string{"lcc", "aea", "eqdc"} {
		for i, sp := range pairs {
			region := "north"
			if sp[0] < 0 {
				region = "south"
			}
			// (index 8: a steep cone, n = 0.9: the cone angle n*(lon-lon_0) exceeds 90 degrees)
			lat0 := []float64{0, 38, -30, 23, 40, 5, 35, -20, 60}[i]
			lon0 := []float64{-96, 13.5, 100, 25, -96, 0, 10, -60, -100}[i]
			origin := []string{"+x_0=0 +y_0=0", "+x_0=400000 +y_0=400000", "+x_0=0 +y_0=0", "+x_0=1000000 +y_0=-500000", "", "+x_0=600000 +y_0=0", "+x_0=200000 +y_0=100000", "+x_0=0 +y_0=0", "+x_0=0 +y_0=0"}[i]
			if i == 7 {
				p = append(p, param{pr, fmt.Sprintf("+proj=%s +lat_1=%g +lat_0=%g +lon_0=%g %s", pr, sp[0], lat0, lon0, origin), lon0, region})
				continue
			}
			if pr == "lcc" && sp[0] == sp[1] {
				p = append(p, param{pr, fmt.Sprintf("+proj=lcc +lat_1=%g +lat_0=%g +lon_0=%g %s", sp[0], lat0, lon0, origin), lon0, region})
				continue
			}
			if sp[0] == sp[1] && pr != "lcc" {
				// one standard parallel given twice
				p = append(p, param{pr, strings.TrimSpace(fmt.Sprintf("+proj=%s +lat_1=%g +lat_2=%g +lat_0=%g +lon_0=%g %s", pr, sp[0], sp[1], lat0, lon0, origin)), lon0, region})
				continue
			}
			p = append(p, param{pr, strings.TrimSpace(fmt.Sprintf("+proj=%s +lat_1=%g +lat_2=%g +lat_0=%g +lon_0=%g %s", pr, sp[0], sp[1], lat0, lon0, origin)), lon0, region})
		}
	}
	// a secant cone with an explicit scale factor and an origin away from the parallels
	p = append(p, param{"lcc", "+proj=lcc +lat_1=33 +lat_2=45 +lat_0=38 +lon_0=-96 +k_0=0.9992 +x_0=300000 +y_0=200000", -96, "north"})
	// transverse Mercator
	for i, lon0 := range []float64{-2, 9, 117} {
		lat0 := []float64{49, 0, 0}[i]
		k := []float64{0.9996012717, 1, 0.9999}[i]
		origin := []string{"+x_0=400000 +y_0=-100000", "+x_0=0 +y_0=0", ""}[i]
		p = append(p, param{"tmerc", strings.TrimSpace(fmt.Sprintf("+proj=tmerc +lat_0=%g +lon_0=%g +k=%g %s", lat0, lon0, k, origin)), lon0, "tm"})
	}
	p = append(p, param{"tmerc", "+proj=tmerc +lon_0=-63 +x_0=500000 +y_0=10000000", -63, "tm"}) // lat_0 and k omitted
	// UTM: all zones, both hemispheres
	for z := 1; z <= 60; z++ {
		lon0 := float64(6*z - 183)
		p = append(p, param{"utm", fmt.Sprintf("+proj=utm +zone=%d", z), lon0, "tm"})
		p = append(p, param{"utm", fmt.Sprintf("+proj=utm +zone=%d +south", z), lon0, "tm"})
	}
	// Krovak: defaults and the EPSG:5514 parameters
	p = append(p, param{"krovak", "+proj=krovak", 24.83333333333333, "krovak"})
	p = append(p, param{"krovak", "+proj=krovak +lat_0=49.5 +lon_0=24.83333333333333 +alpha=30.28813972222222 +k=0.9999 +x_0=0 +y_0=0", 24.83333333333333, "krovak"})
	// Krovak about another meridian
	p = append(p, param{"krovak", "+proj=krovak +lat_0=49.5 +lon_0=20 +k=0.9999 +x_0=0 +y_0=0", 20, "krovak"})
	return p
}

func positions(region string, lon0 float64) [][2]float64 {
	var pts [][2]float64
	wrap := func(l float64) float64 {
		for l > 180 {
			l -= 360
		}
		for l < -180 {
			l += 360
		}
		return l
	}
	switch region {
	case "merc":
		for _, lon := range []float64{-179, -90, -1, 0, 45, 133, 179} {
			for _, lat := range []float64{-85, -60, -23.5, -0.001, 0, 10, 45.5, 71, 85} {
				pts = append(pts, [2]float64{lon, lat})
			}
		}

	case "north", "south":
		lats := []float64{5, 20, 33, 40.5, 52, 65, 80}
		for _, dl := range []float64{-150, -60, -20, 0, 15, 50, 110} {
			for _, lat := range lats {
				if region == "south" {
					lat = -lat
				}
				pts = append(pts, [2]float64{wrap(lon0 + dl), lat})
			}
		}
	case "tm":
		for _, dl := range []float64{-3.5, -2, -0.5, 0, 1, 3.5} {
			for _, lat := range []float64{-80, -55, -30, -5, 0, 12, 37, 61, 84} {
				pts = append(pts, [2]float64{wrap(lon0 + dl), lat})
			}
		}
	case "krovak":
		for _, lon := range []float64{12.5, 15, 17.7, 20, 22.5} {
			for _, lat := range []float64{47.8, 49, 50.1, 51} {
				pts = append(pts, [2]float64{lon, lat})
			}
		}
	}
	return pts
}

// Lattice enumerates the definitions. full=false: quick tier (every option
// with the first parameterisation of each projection, every parameterisation
// with the six core options, every tenth UTM zone pair with all core options
// and all zones with the base option).
func Lattice(full bool) []Def {
	var out []Def
	firstOf := map[string]bool{}
	allOpts := options(true)
	coreOpts := options(false)
	for pi, pa := range params() {
		opts := coreOpts
		if !firstOf[pa.proj] {
			firstOf[pa.proj] = true
			opts = allOpts
		} else if full && pa.proj != "utm" {
			opts = allOpts
		}
		if pa.proj == "utm" && !full && (pi%20 != 0) {
			opts = coreOpts[:1]
		}
		if pa.proj == "tmerc" || pa.proj == "utm" {
			// (the spherical transverse Mercator of proj4js has its own known classes;
			// one spherical option is enough there)
			var ko []option
			for _, o := range opts {
				if o.label != "sphere+datum=WGS84" {
					ko = append(ko, o)
				}
			}
			opts = ko
		}
		if pa.proj == "krovak" {
			// Krovak is defined on the Bessel ellipsoid; keep ellipsoid-free options only
			var ko []option
			for _, o := range opts {
				if o.label == "base" || o.label == "towgs84-7" || o.label == "datum=s_jtsk" || o.label == "ellps=bessel" || o.label == "units=ft" || o.label == "pm=paris" {
					ko = append(ko, o)
				}
			}
			opts = ko
		}
		for _, o := range opts {
			geo := "+proj=longlat " + strings.ReplaceAll(strings.ReplaceAll(strings.ReplaceAll(o.text, " +units=ft", ""), " +units=us-ft", ""), " +to_meter=0.9144", "")
			d := Def{
				Name: pa.proj + "|" + pa.text + "|" + o.label, Proj: pa.proj, Params: pa.text, Ellps: o.text,
				Proj4: pa.text + " " + o.text, Geo: geo, HasDatum: o.hasDatum, ToMeter: o.toMeter, Pm: o.pm, Option: o.label,
				C09Only: o.label == "sphere+datum=WGS84" || strings.HasPrefix(o.label, "zero-shift:"),
			}
			// positions are given relative to Greenwich; the central meridian of a
			// definition with +pm is relative to that prime meridian
			d.Pts = positions(pa.region, pa.lon0+o.pm)
			if pa.region == "merc" && o.label == "base" {
				// exactly on the antimeridian of the projection (lon - lon_0 = +-180),
				// for the plain WGS84 definitions only: any datum hop or unit
				// conversion moves such a longitude by an ulp, and which side of the
				// seam it lands on is then a matter of rounding in the port and in
				// proj4js alike
				l := pa.lon0 + 180
				if l > 180 {
					l -= 360
				}
				for _, lat := range []float64{-60, 0, 45.5} {
					d.Pts = append(d.Pts, [2]float64{l, lat})
				}
			}
			if (pa.region == "north" || pa.region == "south") && o.label == "base" {
				// both poles, for the plain WGS84 definitions only (a datum hop moves a
				// pole by metres and then it is no pole any more)
				l := pa.lon0 + 15
				if l > 180 {
					l -= 360
				}
				d.Pts = append(d.Pts, [2]float64{l, 90}, [2]float64{l, -90})
			}
			if o.pm != 0 {
				// keep longitudes relative to the prime meridian inside [-180, 180]
				var keep [][2]float64
				for _, p := range d.Pts {
					if l := p[0] - o.pm; l >= -179.5 && l <= 179.5 {
						keep = append(keep, p)
					}
				}
				d.Pts = keep
			}
			out = append(out, d)
		}
	}
	sort.SliceStable(out, func(i, j int) bool { return false })
	return out
}
