package projlib

import "math"

// Independent reference formulas (Snyder, "Map Projections - A Working
// Manual", 1987; Karney 2011 for the Krueger series). All angles in radians.

// Ellipsoid parameters.
type Ell struct{ A, F float64 } // semi-major axis, flattening (0 for a sphere)

func (e Ell) E2() float64 { return e.F * (2 - e.F) }

func msf(e2, phi float64) float64 { return math.Cos(phi) / math.Sqrt(1-e2*math.Sin(phi)*math.Sin(phi)) }

func tsf(e, phi float64) float64 {
	s := math.Sin(phi)
	return math.Tan(math.Pi/4-phi/2) / math.Pow((1-e*s)/(1+e*s), e/2)
}

func qsf(e, phi float64) float64 {
	s := math.Sin(phi)
	if e < 1e-9 {
		return 2 * s
	}
	return (1 - e*e) * (s/(1-e*e*s*s) - 1/(2*e)*math.Log((1-e*s)/(1+e*s)))
}

// MeridianArc is the meridian distance from the equator to phi by
// Gauss-Legendre quadrature of a(1-e^2)/(1-e^2 sin^2)^(3/2).
func MeridianArc(el Ell, phi float64) float64 {
	e2 := el.E2()
	// 16-point Gauss-Legendre on [0, phi] split into 8 panels
	xs := []float64{0.0950125098376374, 0.2816035507792589, 0.4580167776572274, 0.6178762444026438, 0.7554044083550030, 0.8656312023878318, 0.9445750230732326, 0.9894009349916499}
	ws := []float64{0.1894506104550685, 0.1826034150449236, 0.1691565193950025, 0.1495959888165767, 0.1246289712555339, 0.0951585116824928, 0.0622535239386479, 0.0271524594117541}
	f := func(p float64) float64 {
		s := math.Sin(p)
		return el.A * (1 - e2) / math.Pow(1-e2*s*s, 1.5)
	}
	total := 0.0
	const panels = 8
	for k := 0; k < panels; k++ {
		a, b := phi*float64(k)/panels, phi*float64(k+1)/panels
		c, h := (a+b)/2, (b-a)/2
		for i := range xs {
			total += ws[i] * h * (f(c+h*xs[i]) + f(c-h*xs[i]))
		}
	}
	return total
}

// MercFwd: Snyder (7-7), (7-8) with scale k0 (or lat_ts -> k0 = m(lat_ts)).
func MercFwd(el Ell, lon0, k0, lon, lat float64) (float64, float64) {
	e := math.Sqrt(el.E2())
	x := el.A * k0 * (lon - lon0)
	y := -el.A * k0 * math.Log(tsf(e, lat))
	return x, y
}

// MercK0 for a latitude of true scale.
func MercK0(el Ell, latTS float64) float64 { return msf(el.E2(), latTS) }

// LCCFwd: Snyder (15-1)..(15-4), (14-1), (14-2); lat1 == lat2 for one standard parallel.
func LCCFwd(el Ell, lat1, lat2, lat0, lon0, lon, lat float64) (float64, float64) {
	e2 := el.E2()
	e := math.Sqrt(e2)
	m1, m2 := msf(e2, lat1), msf(e2, lat2)
	t1, t2, t0, t := tsf(e, lat1), tsf(e, lat2), tsf(e, lat0), tsf(e, lat)
	n := math.Sin(lat1)
	if math.Abs(lat1-lat2) > 1e-10 {
		n = (math.Log(m1) - math.Log(m2)) / (math.Log(t1) - math.Log(t2))
	}
	F := m1 / (n * math.Pow(t1, n))
	rho := el.A * F * math.Pow(t, n)
	rho0 := el.A * F * math.Pow(t0, n)
	th := n * wrapPi(lon-lon0)
	return rho * math.Sin(th), rho0 - rho*math.Cos(th)
}

// AEAFwd: Snyder (14-1)..(14-6).
func AEAFwd(el Ell, lat1, lat2, lat0, lon0, lon, lat float64) (float64, float64) {
	e2 := el.E2()
	e := math.Sqrt(e2)
	m1, m2 := msf(e2, lat1), msf(e2, lat2)
	q1, q2, q0, q := qsf(e, lat1), qsf(e, lat2), qsf(e, lat0), qsf(e, lat)
	n := math.Sin(lat1)
	if math.Abs(lat1-lat2) > 1e-10 {
		n = (m1*m1 - m2*m2) / (q2 - q1)
	}
	C := m1*m1 + n*q1
	rho := el.A * math.Sqrt(C-n*q) / n
	rho0 := el.A * math.Sqrt(C-n*q0) / n
	th := n * wrapPi(lon-lon0)
	return rho * math.Sin(th), rho0 - rho*math.Cos(th)
}

// EQDCFwd: Snyder (16-1)..(16-4) with the meridian arc by quadrature.
func EQDCFwd(el Ell, lat1, lat2, lat0, lon0, lon, lat float64) (float64, float64) {
	e2 := el.E2()
	m1, m2 := msf(e2, lat1), msf(e2, lat2)
	M1, M2, M0, M := MeridianArc(el, lat1), MeridianArc(el, lat2), MeridianArc(el, lat0), MeridianArc(el, lat)
	n := math.Sin(lat1)
	if math.Abs(lat1-lat2) > 1e-10 {
		n = el.A * (m1 - m2) / (M2 - M1)
	}
	G := m1/n + M1/el.A
	rho := el.A*G - M
	rho0 := el.A*G - M0
	th := n * wrapPi(lon-lon0)
	return rho * math.Sin(th), rho0 - rho*math.Cos(th)
}

// TMFwd: Krueger n-series to 6th order (Karney 2011, eqs. 7-11, 35) relative to
// the latitude of origin lat0, scale k0.
func TMFwd(el Ell, lat0, lon0, k0, lon, lat float64) (float64, float64) {
	f := el.F
	n := f / (2 - f)
	n2, n3, n4, n5, n6 := n*n, n*n*n, n*n*n*n, n*n*n*n*n, n*n*n*n*n*n
	A := el.A / (1 + n) * (1 + n2/4 + n4/64 + n6/256)
	al := []float64{
		n/2 - 2*n2/3 + 5*n3/16 + 41*n4/180 - 127*n5/288 + 7891*n6/37800,
		13*n2/48 - 3*n3/5 + 557*n4/1440 + 281*n5/630 - 1983433*n6/1935360,
		61*n3/240 - 103*n4/140 + 15061*n5/26880 + 167603*n6/181440,
		49561*n4/161280 - 179*n5/168 + 6601661*n6/7257600,
		34729*n5/80640 - 3418889*n6/1995840,
		212378941 * n6 / 319334400,
	}
	e := math.Sqrt(el.E2())
	conf := func(phi float64) float64 { // tan of the conformal latitude
		t := math.Tan(phi)
		s := math.Sinh(e * math.Atanh(e*t/math.Sqrt(1+t*t)))
		return t*math.Sqrt(1+s*s) - s*math.Sqrt(1+t*t)
	}
	north := func(phi, dl float64) (float64, float64) {
		tp := conf(phi)
		xi := math.Atan2(tp, math.Cos(dl))
		eta := math.Asinh(math.Sin(dl) / math.Sqrt(tp*tp+math.Cos(dl)*math.Cos(dl)))
		x, y := eta, xi
		for j, a := range al {
			k := float64(2 * (j + 1))
			y += a * math.Sin(k*xi) * math.Cosh(k*eta)
			x += a * math.Cos(k*xi) * math.Sinh(k*eta)
		}
		return k0 * A * x, k0 * A * y
	}
	x, y := north(lat, lon-lon0)
	_, y0 := north(lat0, 0)
	return x, y - y0
}

// Geocentric conversion and Helmert chain.
func ToGeocentric(el Ell, lon, lat, h float64) (float64, float64, float64) {
	e2 := el.E2()
	N := el.A / math.Sqrt(1-e2*math.Sin(lat)*math.Sin(lat))
	return (N + h) * math.Cos(lat) * math.Cos(lon), (N + h) * math.Cos(lat) * math.Sin(lon), (N*(1-e2) + h) * math.Sin(lat)
}

// FromGeocentric inverts ToGeocentric by fixed-point iteration (converges to
// machine precision for terrestrial points).
func FromGeocentric(el Ell, X, Y, Z float64) (lon, lat, h float64) {
	e2 := el.E2()
	p := math.Hypot(X, Y)
	lon = math.Atan2(Y, X)
	lat = math.Atan2(Z, p*(1-e2))
	for i := 0; i < 30; i++ {
		N := el.A / math.Sqrt(1-e2*math.Sin(lat)*math.Sin(lat))
		h = p/math.Cos(lat) - N
		nl := math.Atan2(Z, p*(1-e2*N/(N+h)))
		if math.Abs(nl-lat) < 1e-15 {
			lat = nl
			break
		}
		lat = nl
	}
	N := el.A / math.Sqrt(1-e2*math.Sin(lat)*math.Sin(lat))
	h = p/math.Cos(lat) - N
	return
}

// HelmertToWGS84 applies towgs84 parameters (3 or 7; arc seconds, ppm;
// position-vector convention with the small-angle rotation matrix, as PROJ.4).
func HelmertToWGS84(p []float64, X, Y, Z float64) (float64, float64, float64) {
	if len(p) < 7 {
		return X + p[0], Y + p[1], Z + p[2]
	}
	const s2r = math.Pi / 180 / 3600
	rx, ry, rz, m := p[3]*s2r, p[4]*s2r, p[5]*s2r, 1+p[6]*1e-6
	return m*(X-rz*Y+ry*Z) + p[0], m*(rz*X+Y-rx*Z) + p[1], m*(-ry*X+rx*Y+Z) + p[2]
}

// wrapPi brings a longitude difference into (-pi, pi].
func wrapPi(d float64) float64 {
	for d > math.Pi {
		d -= 2 * math.Pi
	}
	for d <= -math.Pi {
		d += 2 * math.Pi
	}
	return d
}
