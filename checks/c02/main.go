// C02 — Within classifies points against polygons exactly. Engine E1: every
// ring of 3-4 (5) vertices on a small integer grid, closed and unclosed, every
// two-ring polygon / two-member multi-polygon over the triangles of a 3x3
// grid, every box, x the full half-integer query grid, against an
// integer-arithmetic oracle; the same rings pushed through affine maps with
// non-representable coefficients for points with a clear margin.
package main

import (
	"encoding/json"
	"fmt"
	"math"
	"os"
	"sync/atomic"

	"github.com/ctessum/geom"

	"verif/mc/enum"
	"verif/mc/report"
)

// P2 is a point in doubled integer coordinates (so half-integers are exact).
type P2 struct{ X, Y int64 }

// Case is a replayable case: rings per polygon, in doubled coordinates.
type Case struct {
	Polys  [][][]P2 // polygons -> rings -> vertices
	AsType string   // "Polygon", "MultiPolygon", "Bounds"
	Q      P2
	Affine int // 0 = none, k>0 = k-th affine map
}

func cross(o, a, b P2) int64 { return (a.X-o.X)*(b.Y-o.Y) - (a.Y-o.Y)*(b.X-o.X) }

func onSeg(p, a, b P2) bool {
	if cross(a, b, p) != 0 {
		return false
	}
	return min64(a.X, b.X) <= p.X && p.X <= max64(a.X, b.X) && min64(a.Y, b.Y) <= p.Y && p.Y <= max64(a.Y, b.Y)
}

func min64(a, b int64) int64 {
	if a < b {
		return a
	}
	return b
}
func max64(a, b int64) int64 {
	if a > b {
		return a
	}
	return b
}

// classify is the reference: 2 = OnEdge, 1 = Inside, 0 = Outside.
func classify(polys [][][]P2, p P2) int {
	par := 0
	for _, pg := range polys {
		for _, ring := range pg {
			if len(ring) < 3 {
				continue
			}
			n := len(ring)
			for i := 0; i < n; i++ {
				a, b := ring[i], ring[(i+1)%n]
				if onSeg(p, a, b) {
					return 2
				}
				if (a.Y > p.Y) != (b.Y > p.Y) {
					// does the edge cross the horizontal ray to the right of p?
					l := (p.X - a.X) * (b.Y - a.Y)
					r := (p.Y - a.Y) * (b.X - a.X)
					if b.Y-a.Y > 0 {
						if l < r {
							par ^= 1
						}
					} else if l > r {
						par ^= 1
					}
				}
			}
		}
	}
	return par
}

// margin2 reports whether p is at least 1/16 (in original units) away from
// every edge line segment: exact test on squared distances.
func clearMargin(polys [][][]P2, p P2) bool {
	for _, pg := range polys {
		for _, ring := range pg {
			n := len(ring)
			for i := 0; i < n; i++ {
				a, b := ring[i], ring[(i+1)%n]
				// squared distance point-segment in doubled units must be >= (1/8)^2 doubled... use
				// rational comparison: d^2 = cross^2/len^2 when the projection falls inside.
				dx, dy := b.X-a.X, b.Y-a.Y
				l2 := dx*dx + dy*dy
				var num, den int64 // d^2 = num/den
				if l2 == 0 {
					num, den = (p.X-a.X)*(p.X-a.X)+(p.Y-a.Y)*(p.Y-a.Y), 1
				} else {
					t := (p.X-a.X)*dx + (p.Y-a.Y)*dy
					if t <= 0 {
						num, den = (p.X-a.X)*(p.X-a.X)+(p.Y-a.Y)*(p.Y-a.Y), 1
					} else if t >= l2 {
						num, den = (p.X-b.X)*(p.X-b.X)+(p.Y-b.Y)*(p.Y-b.Y), 1
					} else {
						c := cross(a, b, p)
						num, den = c*c, l2
					}
				}
				// require d >= 1/4 in doubled quarter units; coordinates here are scaled by 8 (see affine family)
				if num*1 < den*1 { // d^2 < 1 (scaled units): too close
					return false
				}
			}
		}
	}
	return true
}

var affines = [][6]float64{
	{0.7310585786300049, 0.2689414213699951, -0.11920292202211755, 0.8807970779778823, 0.1, -0.3},
	{-1.1, 0.3333333333333333, 0.7, 0.9, 1e3 + 0.1, -7.7},
	{1e-7 / 3, 0, 0, 1e-7 / 7, 0, 0},
	{1e6 / 3, -1e6 / 7, 1e6 / 11, 1e6 / 13, 123456.789, -98765.4321},
	{0, 1.1, -0.9, 0, 0.3, 0.7},
	{3.3, 3.1, 1.7, -2.9, 1e-3, 1e-3},
	// exact scalings by 2^665 (about 1.5e200) and 2^-665: products of two
	// coordinate differences leave the float64 range, quotients do not
	{math.Ldexp(1, 665), 0, 0, math.Ldexp(1, 665), 0, 0},
	{math.Ldexp(1, -665), 0, 0, math.Ldexp(1, -665), 0, 0},
	// small and far away (exact): rings of 3e-3 around (2^22, 3*2^21), nine
	// orders of magnitude below their coordinates
	{math.Ldexp(1, -10), 0, 0, math.Ldexp(1, -10), 4194304, 6291456},
}

func build(c Case, scale float64) (geom.Polygonal, geom.Point) {
	tr := func(p P2) geom.Point {
		x, y := float64(p.X)/scale, float64(p.Y)/scale
		if c.Affine > 0 {
			a := affines[c.Affine-1]
			return geom.Point{X: a[0]*x + a[1]*y + a[4], Y: a[2]*x + a[3]*y + a[5]}
		}
		return geom.Point{X: x, Y: y}
	}
	var mp geom.MultiPolygon
	for _, pg := range c.Polys {
		var g geom.Polygon
		for _, ring := range pg {
			var r geom.Path
			for _, v := range ring {
				r = append(r, tr(v))
			}
			g = append(g, r)
		}
		mp = append(mp, g)
	}
	q := tr(c.Q)
	switch c.AsType {
	case "Polygon":
		return mp[0], q
	case "Bounds":
		r := c.Polys[0][0]
		return &geom.Bounds{Min: tr(r[0]), Max: tr(r[2])}, q
	}
	return mp, q
}

func try(f func()) (p string) {
	defer func() {
		if r := recover(); r != nil {
			p = fmt.Sprint(r)
		}
	}()
	f()
	return ""
}

var names = []string{"Outside", "Inside", "OnEdge"}

func check(c Case, scale int64) (string, string) {
	want := classify(c.Polys, c.Q)
	pg, q := build(c, float64(scale))
	var got geom.WithinStatus
	if p := try(func() { got = q.Within(pg) }); p != "" {
		return "panic", p
	}
	g := map[geom.WithinStatus]int{geom.Outside: 0, geom.Inside: 1, geom.OnEdge: 2}[got]
	if g != want {
		return fmt.Sprintf("got-%s-want-%s", names[g], names[want]), fmt.Sprintf("%v.Within(%v) = %s, want %s", q, pg, names[g], names[want])
	}
	return "", ""
}

func main() {
	tier := "quick"
	if len(os.Args) > 1 {
		tier = os.Args[1]
	}
	if tier == "replay" {
		b, err := os.ReadFile(os.Args[2])
		if err != nil {
			report.Harness("%v", err)
		}
		var f struct {
			Case struct {
				Case  Case
				Scale int64
			}
		}
		json.Unmarshal(b, &f)
		sym, det := check(f.Case.Case, f.Case.Scale)
		fmt.Printf("result: %q %s\n", sym, det)
		if sym != "" {
			os.Exit(1)
		}
		return
	}
	r := report.New("C02", tier, "model_checking")
	r.Rule = "E1: (a) every ring of 3 and 4 (thorough: 5) vertices over {0..3}^2 (thorough 5-rings over {0..2}^2), repeated vertices and self-intersections included, closed and unclosed spelling, x all 81 points of the half-integer grid over [-0.5,3.5]^2; (a') the same over the lattice {0,1e10,2e10} x {0,5,10} (aspect ratio 1e9, exact integers); (b) every two-ring Polygon and two-member MultiPolygon over the 504 triangles of {0..2}^2 x 49 half-integer points; (b') the same family on one polygon value per worker, rings cut from one flat buffer and edited in place between cases (answers depend on current coordinates only; caller's buffer not written); (b'') rings of 64..200 vertices (convex, with a hole, star-shaped) x 1849 lattice points; (c) every box over {0..3}^2 as *Bounds; (d) the 3-/4-vertex rings through 6 affine maps with non-representable coefficients 2 exact scalings by 2^665 and 2^-665 and one exact small-and-far map (2^-10, moved to (2^22, 3*2^21)) at points with an exactly verified margin; (e) MultiPoint/LineString/MultiLineString/Polygon receivers with all vertex lists of length <= 2 (3 on a sub-grid) against 8 target shapes (two of them away from the origin). Oracle: integer on-segment test and half-open crossing parity. Non-trivial = queries whose reference answer is OnEdge or whose ray passes through a vertex."
	var n, nontrivial, skipped int64
	viol := func(fam string, c Case, scale int64, sym, det string) {
		r.Violation(fmt.Sprintf("%s|%s|%s", fam, c.AsType, sym), map[string]interface{}{"case": c, "scale": scale, "observed": det})
	}
	grid := func(lo, hi int64) []P2 {
		var g []P2
		for x := lo; x <= hi; x++ {
			for y := lo; y <= hi; y++ {
				g = append(g, P2{x, y})
			}
		}
		return g
	}
	// (a) rings over {0..3}^2, doubled coordinates 0,2,4,6; queries -1..7
	verts := func(k int64) []P2 {
		var v []P2
		for x := int64(0); x <= k; x++ {
			for y := int64(0); y <= k; y++ {
				v = append(v, P2{2 * x, 2 * y})
			}
		}
		return v
	}
	ringFamily := func(nv int, k int64) {
		vs := verts(k)
		q := grid(-1, 2*k+1)
		total := 1
		for i := 0; i < nv; i++ {
			total *= len(vs)
		}
		enum.Parallel(total, r.Expired, func(idx int) {
			ring := make([]P2, nv)
			t := idx
			for i := 0; i < nv; i++ {
				ring[i] = vs[t%len(vs)]
				t /= len(vs)
			}
			for spelling := 0; spelling < 2; spelling++ {
				rg := ring
				if spelling == 1 {
					rg = append(append([]P2{}, ring...), ring[0])
				}
				for _, p := range q {
					c := Case{Polys: [][][]P2{{rg}}, AsType: "Polygon", Q: p}
					atomic.AddInt64(&n, 1)
					w := classify(c.Polys, p)
					if w == 2 || vertexOnRay(rg, p) {
						atomic.AddInt64(&nontrivial, 1)
					}
					if sym, det := check(c, 2); sym != "" {
						viol("ring", c, 2, sym, det)
					}
				}
			}
			if idx%9973 == 0 {
				r.Sample(6, fmt.Sprintf("ring %v (doubled coordinates) x %d query points", ring, len(q)))
			}
		})
	}
	ringFamily(3, 3)
	ringFamily(4, 3)
	if tier == "thorough" {
		ringFamily(5, 2)
		ringFamily(6, 1)
	}
	// (b) two rings / two members over the triangles of {0..2}^2
	vs := verts(2)
	var tris [][]P2
	for a := range vs {
		for b := range vs {
			for c := range vs {
				if a != b && b != c && a != c {
					tris = append(tris, []P2{vs[a], vs[b], vs[c]})
				}
			}
		}
	}
	q2 := grid(-1, 5)
	enum.Parallel(len(tris), r.Expired, func(i int) {
		for j := range tris {
			for _, as := range []string{"Polygon", "MultiPolygon"} {
				polys := [][][]P2{{tris[i], tris[j]}}
				if as == "MultiPolygon" {
					polys = [][][]P2{{tris[i]}, {tris[j]}}
				}
				for _, p := range q2 {
					c := Case{Polys: polys, AsType: as, Q: p}
					atomic.AddInt64(&n, 1)
					if classify(polys, p) == 2 {
						atomic.AddInt64(&nontrivial, 1)
					}
					if sym, det := check(c, 2); sym != "" {
						viol("two-rings", c, 2, sym, det)
					}
				}
			}
		}
	})
	// (b') the same two-ring family evaluated on ONE polygon value per worker
	// whose rings are cut from one flat vertex buffer (spare capacity reaching
	// into the next ring) and rewritten in place from case to case: an answer
	// must depend on the current coordinates only (no state keyed by slice
	// identity), and the call must not write into the caller's buffer.
	reused := func(i int) {
		sentinel := geom.Point{X: 1234.5, Y: -4321.25}
		buf := make([]geom.Point, 7)
		buf[6] = sentinel
		pv := geom.Polygon{buf[0:3], buf[3:6]}
		mv := geom.MultiPolygon{{buf[0:3]}, {buf[3:6]}}
		want := make([]geom.Point, 6)
		// (type outermost: consecutive calls then see the same value edited in place)
		for _, as := range []string{"Polygon", "MultiPolygon"} {
			for j := range tris {
				for k, v := range append(append([]P2{}, tris[i]...), tris[j]...) {
					want[k] = geom.Point{X: float64(v.X) / 2, Y: float64(v.Y) / 2}
				}
				polys := [][][]P2{{tris[i], tris[j]}}
				var pg geom.Polygonal = pv
				if as == "MultiPolygon" {
					polys = [][][]P2{{tris[i]}, {tris[j]}}
					pg = mv
				}
				copy(buf, want) // in-place edit of the value queried before
				for _, p := range q2 {
					c := Case{Polys: polys, AsType: as, Q: p}
					atomic.AddInt64(&n, 1)
					w := classify(polys, p)
					q := geom.Point{X: float64(p.X) / 2, Y: float64(p.Y) / 2}
					var got geom.WithinStatus
					if pn := try(func() { got = q.Within(pg) }); pn != "" {
						viol("reused-flat-buffer", c, 2, "panic", pn)
						continue
					}
					g := map[geom.WithinStatus]int{geom.Outside: 0, geom.Inside: 1, geom.OnEdge: 2}[got]
					if g != w {
						viol("reused-flat-buffer", c, 2, fmt.Sprintf("got-%s-want-%s", names[g], names[w]), fmt.Sprintf("polygon value reused and edited in place, rings buf[0:3], buf[3:6] of one buffer: %v.Within(%v) = %s, want %s", q, pg, names[g], names[w]))
					}
					for k := range want {
						if buf[k] != want[k] {
							viol("reused-flat-buffer", c, 2, "caller-buffer-written", fmt.Sprintf("vertex %d of the buffer changed from %v to %v", k, want[k], buf[k]))
							copy(buf, want)
						}
					}
					if buf[6] != sentinel {
						viol("reused-flat-buffer", c, 2, "caller-buffer-written", fmt.Sprintf("the element behind the last ring changed to %v", buf[6]))
						buf[6] = sentinel
					}
				}
			}
		}
	}
	// first in one goroutine with nothing else running (package-level state,
	// e.g. a cache of the last polygon, then sees exactly this call history),
	// then the whole family in parallel
	for i := 0; i < len(tris); i += 37 {
		reused(i)
	}
	enum.Parallel(len(tris), r.Expired, reused)
	// three members incl. a ring with < 3 vertices and an empty polygon
	enum.Parallel(len(tris), r.Expired, func(i int) {
		for j := 0; j < len(tris); j += 7 {
			polys := [][][]P2{{tris[i], {vs[0], vs[8]}}, {}, {tris[j]}, {{vs[4]}}}
			for _, p := range q2 {
				c := Case{Polys: polys, AsType: "MultiPolygon", Q: p}
				atomic.AddInt64(&n, 1)
				if sym, det := check(c, 2); sym != "" {
					viol("degenerate-members", c, 2, sym, det)
				}
			}
		}
	})
	// (a') extreme aspect ratio: rings of 3 and 4 vertices over the 3x3 lattice
	// {0, 1e10, 2e10} x {0, 5, 10} (integers: the arithmetic stays exact) x the
	// lattice of query points between and on them; slopes differ by 1e-10
	{
		var vs []P2
		for _, x := range []int64{0, 2e10, 4e10} {
			for _, y := range []int64{0, 10, 20} {
				vs = append(vs, P2{x, y})
			}
		}
		var qs []P2
		for x := int64(-1e10); x <= 5e10; x += 1e10 {
			for y := int64(-1); y <= 21; y++ {
				qs = append(qs, P2{x, y})
			}
		}
		for nv := 3; nv <= 4; nv++ {
			total := 1
			for i := 0; i < nv; i++ {
				total *= len(vs)
			}
			enum.Parallel(total, r.Expired, func(idx int) {
				ring := make([]P2, nv)
				t := idx
				for i := 0; i < nv; i++ {
					ring[i] = vs[t%len(vs)]
					t /= len(vs)
				}
				for _, p := range qs {
					c := Case{Polys: [][][]P2{{ring}}, AsType: "Polygon", Q: p}
					atomic.AddInt64(&n, 1)
					if classify(c.Polys, p) == 2 {
						atomic.AddInt64(&nontrivial, 1)
					}
					if sym, det := check(c, 2); sym != "" {
						viol("flat-ring", c, 2, sym, det)
					}
				}
			})
		}
	}
	// (b'') rings of many vertices: 64-, 65- and 200-gons (convex, integer
	// vertices), a 100-gon with a 33-gon hole, and a star-shaped 128-vertex ring,
	// closed and unclosed, x a 41x41 lattice of query points
	{
		gon := func(n int, r, rin float64) []P2 {
			var o []P2
			for k := 0; k < n; k++ {
				a := 2 * math.Pi * (float64(k) + 0.25) / float64(n)
				rr := r
				if rin > 0 && k%2 == 1 {
					rr = rin
				}
				o = append(o, P2{int64(math.Round(300 + rr*math.Cos(a))), int64(math.Round(300 + rr*math.Sin(a)))})
			}
			return o
		}
		shapes := [][][][]P2{
			{{gon(64, 290, 0)}}, {{gon(65, 290, 0)}}, {{gon(200, 290, 0)}},
			{{gon(100, 295, 0), gon(33, 120, 0)}},
			{{gon(128, 290, 150)}},
		}
		var qs []P2
		for x := int64(-15); x <= 615; x += 15 {
			for y := int64(-15); y <= 615; y += 15 {
				qs = append(qs, P2{x, y})
			}
		}
		for _, polys := range shapes {
			for spelling := 0; spelling < 2; spelling++ {
				ps := polys
				if spelling == 1 {
					ps = [][][]P2{{}}
					for _, ring := range polys[0] {
						ps[0] = append(ps[0], append(append([]P2{}, ring...), ring[0]))
					}
				}
				for _, as := range []string{"Polygon", "MultiPolygon"} {
					for _, p := range qs {
						c := Case{Polys: ps, AsType: as, Q: p}
						n++
						if classify(ps, p) == 2 {
							nontrivial++
						}
						if sym, det := check(c, 2); sym != "" {
							viol("many-vertices", c, 2, sym, det)
						}
					}
				}
			}
		}
	}
	// (c) boxes
	q3 := grid(-1, 7)
	for x0 := int64(0); x0 <= 3; x0++ {
		for x1 := x0; x1 <= 3; x1++ {
			for y0 := int64(0); y0 <= 3; y0++ {
				for y1 := y0; y1 <= 3; y1++ {
					rect := []P2{{2 * x0, 2 * y0}, {2 * x1, 2 * y0}, {2 * x1, 2 * y1}, {2 * x0, 2 * y1}}
					for _, p := range q3 {
						c := Case{Polys: [][][]P2{{rect}}, AsType: "Bounds", Q: p}
						n++
						if sym, det := check(c, 2); sym != "" {
							viol("box", c, 2, sym, det)
						}
					}
				}
			}
		}
	}
	// (d) affine images: coordinates scaled by 16 (vertices at multiples of 16, queries at every odd multiple of 1..)
	{
		var vs16 []P2
		for x := int64(0); x <= 3; x++ {
			for y := int64(0); y <= 3; y++ {
				vs16 = append(vs16, P2{16 * x, 16 * y})
			}
		}
		var q []P2
		for x := int64(-5); x <= 53; x += 4 {
			for y := int64(-3); y <= 53; y += 4 {
				q = append(q, P2{x, y})
			}
		}
		nv := 4
		if tier == "quick" {
			nv = 3
		}
		for k := 3; k <= nv; k++ {
			total := 1
			for i := 0; i < k; i++ {
				total *= len(vs16)
			}
			enum.Parallel(total, r.Expired, func(idx int) {
				ring := make([]P2, k)
				t := idx
				for i := 0; i < k; i++ {
					ring[i] = vs16[t%len(vs16)]
					t /= len(vs16)
				}
				polys := [][][]P2{{ring}}
				for _, p := range q {
					if !clearMargin(polys, p) {
						atomic.AddInt64(&skipped, 1)
						continue
					}
					for a := 1; a <= len(affines); a++ {
						c := Case{Polys: polys, AsType: "Polygon", Q: p, Affine: a}
						atomic.AddInt64(&n, 1)
						if sym, det := check(c, 16); sym != "" {
							viol(fmt.Sprintf("affine%d", a), c, 16, sym, det)
						}
					}
				}
			})
		}
	}
	// (e) compound receivers
	{
		sq := []P2{{0, 0}, {6, 0}, {6, 6}, {0, 6}}
		hole := []P2{{2, 2}, {4, 2}, {4, 4}, {2, 4}}
		targets := []Case{
			{Polys: [][][]P2{{sq}}, AsType: "Polygon"},
			{Polys: [][][]P2{{sq, hole}}, AsType: "Polygon"},
			{Polys: [][][]P2{{sq}, {hole}}, AsType: "MultiPolygon"},
			{Polys: [][][]P2{{{{0, 0}, {2, 0}, {0, 2}}}, {{{4, 4}, {6, 4}, {6, 6}}}}, AsType: "MultiPolygon"},
			{Polys: [][][]P2{{{{0, 0}, {4, 0}, {4, 4}, {0, 4}}}}, AsType: "Bounds"},
			{Polys: [][][]P2{{{{0, 0}, {6, 6}, {6, 0}, {0, 6}}}}, AsType: "Polygon"},
			// targets away from the origin (the origin, a zero value, is Outside)
			{Polys: [][][]P2{{{{2, 2}, {6, 2}, {6, 6}, {2, 6}}}}, AsType: "Polygon"},
			{Polys: [][][]P2{{{{1, 1}, {3, 1}, {3, 3}, {1, 3}}}, {{{4, 4}, {6, 4}, {6, 6}, {4, 6}}}}, AsType: "MultiPolygon"},
		}
		q := grid(-1, 7)
		sub := []P2{}
		for _, p := range q {
			if p.X%2 != 0 || p.Y%3 == 0 {
				sub = append(sub, p)
			}
		}
		for ti, t := range targets {
			pg, _ := build(t, 2)
			cls := map[P2]int{}
			for _, p := range q {
				cls[p] = classify(t.Polys, p)
			}
			pt := func(p P2) geom.Point { return geom.Point{X: float64(p.X) / 2, Y: float64(p.Y) / 2} }
			eval := func(list []P2) {
				wantOut := false
				var pts []geom.Point
				for _, p := range list {
					if cls[p] == 0 {
						wantOut = true
					}
					pts = append(pts, pt(p))
				}
				recv := map[string]geom.Withiner{
					"MultiPoint":      geom.MultiPoint(pts),
					"LineString":      geom.LineString(pts),
					"MultiLineString": geom.MultiLineString{geom.LineString(pts[:len(pts)/2]), geom.LineString(pts[len(pts)/2:])},
					"Polygon":         geom.Polygon{geom.Path(pts[:1]), geom.Path(pts[1:])},
				}
				for name, w := range recv {
					n++
					var got geom.WithinStatus
					if p := try(func() { got = w.Within(pg) }); p != "" {
						r.Violation(fmt.Sprintf("receiver|%s|panic", name), map[string]interface{}{"target": ti, "vertices": list, "panic": p})
						continue
					}
					if (got == geom.Outside) != wantOut {
						r.Violation(fmt.Sprintf("receiver|%s|outside=%v-want-%v", name, got == geom.Outside, wantOut), map[string]interface{}{"target": ti, "target_type": t.AsType, "vertices": list, "got": int(got)})
					}
				}
			}
			for _, a := range q {
				eval([]P2{a})
				for _, b := range q {
					eval([]P2{a, b})
				}
			}
			for _, a := range sub {
				for _, b := range sub {
					for _, c := range sub {
						eval([]P2{a, b, c})
					}
				}
			}
		}
	}
	if r.Expired() {
		r.Cap("wall budget expired")
	}
	r.AddStates(n)
	r.AddTransitions(n)
	r.AddEvals(n)
	r.AddNontrivial(nontrivial)
	r.AddSkipped(skipped)
	r.Finish()
}

func vertexOnRay(ring []P2, p P2) bool {
	for _, v := range ring {
		if v.Y == p.Y && v.X >= p.X {
			return true
		}
	}
	return false
}
