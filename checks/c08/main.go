// C08 — every supported map projection inverts: inverse(forward(p)) = p.
// Engine E1 over a configuration x position lattice (complete over the lattice,
// silent between its points; level "exploration").
package main

import (
	"fmt"
	"math"
	"os"
	"sort"
	"strconv"
	"strings"
	"sync"
	"sync/atomic"

	"github.com/ctessum/geom/proj"

	"verif/checks/projlib"
	"verif/mc/enum"
	"verif/mc/report"
)

func try(f func()) (p string) {
	defer func() {
		if r := recover(); r != nil {
			p = fmt.Sprint(r)
		}
	}()
	f()
	return ""
}

func optionClass(o string) string {
	if i := strings.Index(o, "="); i > 0 && (strings.HasPrefix(o, "ellps=") || strings.HasPrefix(o, "datum=")) {
		return o[:i]
	}
	return o
}

func main() {
	tier := "quick"
	if len(os.Args) > 1 {
		tier = os.Args[1]
	}
	if tier == "replay" {
		b, _ := os.ReadFile(os.Args[2])
		fmt.Printf("%s\nThe case holds the two PROJ.4 definitions and the position; feed them to proj.Parse / NewTransform.\n", b)
		return
	}
	rep := report.New("C08", tier, "exploration")
	rep.Rule = "E1 lattice: projection parameterisations (merc 6, lcc/aea/eqdc 6 standard-parallel pairs each incl. 1SP, reversed and southern cones, tmerc 4 incl. omitted lat_0/k/false origin, utm all 120 zone/hemisphere values, krovak 2) x options one at a time (WGS84 datum, 7- and 3-term towgs84, ft, us-ft, sphere; for the first parameterisation of each projection (thorough: all) additionally a+rf, a+b, two prime meridians, every built-in ellipsoid and every built-in datum) x 20-63 positions spanning the usable region incl. its borders. Per (definition, position): G1 own geographic base -> projected -> geographic within 1e-6 deg and projected again within 1 cm; G2 the same from WGS84 long/lat through the datum shift; no error. Non-trivial = definitions with a non-default option or ellipsoid."
	rep.Assumptions = []string{"numerical property over a continuum: only the lattice points are covered", "only self-consistent definitions are generated (ellipsoid given once, no sphere with a named datum)"}
	var defs []projlib.Def
	for _, d := range projlib.Lattice(tier == "thorough") {
		if !d.C09Only {
			defs = append(defs, d)
		}
	}
	rep.Set("definitions", len(defs))
	var n, nontrivial int64
	type failing struct {
		class, gname, gdef, pdef, sym string
		pt                            [2]float64 // geographic input actually used
		x, y, lon2, lat2, x2, y2      float64
		det                           string
	}
	var fmu sync.Mutex
	var fails []failing
	enum.Parallel(len(defs), rep.Expired, func(i int) {
		d := defs[i]
		noOrigin := !strings.Contains(d.Params, "x_0") && d.Proj != "utm" && d.Proj != "krovak"
		class := fmt.Sprintf("%s|%s", d.Proj, optionClass(d.Option))
		if noOrigin {
			class += "|false-origin-omitted"
		}
		for _, g := range []struct{ name, def string }{{"G1", d.Geo}, {"G2", "+proj=longlat +datum=WGS84"}} {
			fail := func(sym string, pt [2]float64, det string) {
				rep.Violation(fmt.Sprintf("%s|%s|%s", class, g.name, sym), map[string]interface{}{"geographic": g.def, "projected": d.Proj4, "position_lonlat": pt, "observed": det})
			}
			var fwd, inv proj.Transformer
			var err error
			if p := try(func() {
				var gs, ps *proj.SR
				gs, err = proj.Parse(g.def)
				if err != nil {
					return
				}
				ps, err = proj.Parse(d.Proj4)
				if err != nil {
					return
				}
				fwd, err = gs.NewTransform(ps)
				if err != nil {
					return
				}
				gs2, _ := proj.Parse(g.def)
				ps2, _ := proj.Parse(d.Proj4)
				inv, err = ps2.NewTransform(gs2)
			}); p != "" || err != nil || fwd == nil || inv == nil {
				fail("cannot-build-transformer", [2]float64{}, fmt.Sprint(p, err, fwd == nil, inv == nil))
				continue
			}
			for _, pt := range d.Pts {
				lon, lat := pt[0], pt[1]
				if d.Proj == "merc" && math.Abs(math.Abs(lon-pval(d.Params, "lon_0"))-180) < 1e-9 {
					// the seam of the projection: the inverse may answer 180 + 1 ulp, which
					// the forward rightly refuses; the seam positions of the lattice are
					// for the single-step comparison with proj4js (C09) only
					continue
				}
				if math.Abs(lat) == 90 {
					// a pole has no longitude to come back to; the pole positions of the
					// lattice are for the single-step comparison with proj4js (C09) only
					continue
				}
				if g.name == "G1" {
					lon -= d.Pm
				}
				atomic.AddInt64(&n, 1)
				var x, y, lon2, lat2, x2, y2 float64
				var e1, e2, e3 error
				if p := try(func() {
					x, y, e1 = fwd(lon, lat)
					lon2, lat2, e2 = inv(x, y)
					x2, y2, e3 = fwd(lon2, lat2)
				}); p != "" {
					fail("panic", pt, p)
					break
				}
				if e1 != nil || e2 != nil || e3 != nil {
					fail("error", pt, fmt.Sprint(e1, e2, e3))
					break
				}
				if math.IsNaN(x+y+lon2+lat2+x2+y2) || math.IsInf(x+y, 0) {
					fail("not-finite", pt, fmt.Sprintf("forward %g %g, back %g %g", x, y, lon2, lat2))
					break
				}
				dl := math.Abs(lon2 - lon)
				if dl > 180 {
					dl = 360 - dl
				}
				sym, det := "", ""
				if dl*math.Cos(lat*math.Pi/180) > 1e-6 && dl > 1e-6 || math.Abs(lat2-lat) > 1e-6 {
					sym, det = "geographic-roundtrip-exceeds-1e-6deg", fmt.Sprintf("(%.9f, %.9f) -> (%.4f, %.4f) -> (%.9f, %.9f)", lon, lat, x, y, lon2, lat2)
				} else if math.Hypot(x2-x, y2-y)*d.ToMeter > 0.01 {
					sym, det = "projected-roundtrip-exceeds-1cm", fmt.Sprintf("(%.4f, %.4f) -> (%.9f, %.9f) -> (%.4f, %.4f)", x, y, lon2, lat2, x2, y2)
				}
				if sym != "" {
					fmu.Lock()
					fails = append(fails, failing{class, g.name, g.def, d.Proj4, sym, [2]float64{lon, lat}, x, y, lon2, lat2, x2, y2, det})
					fmu.Unlock()
					break
				}
			}
		}
		if d.Option != "base" {
			atomic.AddInt64(&nontrivial, 1)
		}
		if i%97 == 0 {
			rep.Sample(10, d.Proj4)
		}
	})
	// A round trip that exceeds the tolerance although every step agrees with
	// the vendored proj4js 2.3.12 to 0.1 mm / 1e-9 deg is inherited from the
	// original (C09 obliges the port to agree with it) and gets its own
	// signature class; everything else is a plain violation.
	sort.Slice(fails, func(i, j int) bool {
		if fails[i].pdef != fails[j].pdef {
			return fails[i].pdef < fails[j].pdef
		}
		return fails[i].gname < fails[j].gname
	})
	// proj4js has no defaults for omitted +x_0 +y_0 +lat_0 (it yields NaN), so
	// the reference is asked about the same definition with the PROJ.4
	// defaults written out.
	complete := func(def string) string {
		if strings.Contains(def, "+proj=utm") || strings.Contains(def, "+proj=krovak") || strings.Contains(def, "+proj=longlat") {
			return def
		}
		if !strings.Contains(def, "+x_0=") {
			def += " +x_0=0 +y_0=0"
		}
		if !strings.Contains(def, "+lat_0=") {
			def += " +lat_0=0"
		}
		return def
	}
	var reqs []projlib.Req
	for _, f := range fails {
		pd := complete(f.pdef)
		reqs = append(reqs,
			projlib.Req{Src: f.gdef, Dst: pd, Pts: [][2]float64{f.pt}},
			projlib.Req{Src: pd, Dst: f.gdef, Pts: [][2]float64{{f.x, f.y}}},
			projlib.Req{Src: f.gdef, Dst: pd, Pts: [][2]float64{{f.lon2, f.lat2}}})
	}
	var refs []projlib.Res
	if len(reqs) > 0 && (projlib.NodeAvailable() || projlib.GoldenMatches("c08-failing-"+tier, reqs)) {
		refs, _ = projlib.Reference("c08-failing-"+tier, reqs)
	}
	for i, f := range fails {
		same := false
		if refs != nil {
			a, b, c := refs[3*i].Points, refs[3*i+1].Points, refs[3*i+2].Points
			if len(a) == 1 && len(b) == 1 && len(c) == 1 && a[0] != nil && b[0] != nil && c[0] != nil {
				same = math.Hypot(a[0][0]-f.x, a[0][1]-f.y) <= 1e-4 && math.Abs(b[0][0]-f.lon2) <= 1e-9 && math.Abs(b[0][1]-f.lat2) <= 1e-9 && math.Hypot(c[0][0]-f.x2, c[0][1]-f.y2) <= 1e-4
			}
		}
		sig := fmt.Sprintf("%s|%s|%s", f.class, f.gname, f.sym)
		if same {
			// inherited behaviour: one class per cause, whatever the projection
			cause := f.class
			parts := strings.Split(f.class, "|")
			switch {
			case len(parts) > 1 && strings.Contains(parts[1], "towgs84-7"):
				cause = "datum-shift:towgs84-7"
			case len(parts) > 1 && strings.Contains(parts[1], "towgs84-3"):
				cause = "datum-shift:towgs84-3"
			case len(parts) > 1 && parts[1] == "datum":
				cause = "datum-shift:datum"
			case len(parts) > 1 && parts[1] == "sphere" && (parts[0] == "tmerc" || parts[0] == "utm"):
				cause = "spherical-transverse-mercator"
			}
			sig = fmt.Sprintf("%s|%s|roundtrip-beyond-tolerance|identical-in-proj4js-2.3.12", f.gname, cause)
		}
		rep.Violation(sig, map[string]interface{}{"geographic": f.gdef, "projected": f.pdef, "position_lonlat": f.pt, "observed": f.det})
	}
	rep.Set("roundtrips_beyond_tolerance", len(fails))
	if rep.Expired() {
		rep.Cap("wall budget expired")
	}
	rep.AddStates(int64(len(defs)))
	rep.AddTransitions(n * 3)
	rep.AddEvals(n)
	rep.AddNontrivial(nontrivial)
	rep.Finish()
}

// pval reads a numeric +key=value from a PROJ.4 parameter string (0 when absent).
func pval(params, key string) float64 {
	for _, f := range strings.Fields(params) {
		if strings.HasPrefix(f, "+"+key+"=") {
			v, _ := strconv.ParseFloat(strings.TrimPrefix(f, "+"+key+"="), 64)
			return v
		}
	}
	return 0
}
