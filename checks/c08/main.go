// C08 — every supported map projection inverts: inverse(forward(p)) = p.
// Engine E1 over a configuration x position lattice (complete over the lattice,
// silent between its points; level "exploration").
package main

import (
	"fmt"
	"math"
	"os"
	"strings"
	"sync/atomic"

	"github.com/ctessum/geom/proj"

	"verif/checks/projlib"
	"verif/mc/enum"
	"verif/mc/report"
)

func try(f func()) (p string) {
	defer func() {
		if r := recover(); r != nil {
			p = fmt.Sprint(r)
		}
	}()
	f()
	return ""
}

func optionClass(o string) string {
	if i := strings.Index(o, "="); i > 0 && (strings.HasPrefix(o, "ellps=") || strings.HasPrefix(o, "datum=")) {
		return o[:i]
	}
	return o
}

func main() {
	tier := "quick"
	if len(os.Args) > 1 {
		tier = os.Args[1]
	}
	if tier == "replay" {
		b, _ := os.ReadFile(os.Args[2])
		fmt.Printf("%s\nThe case holds the two PROJ.4 definitions and the position; feed them to proj.Parse / NewTransform.\n", b)
		return
	}
	rep := report.New("C08", tier, "exploration")
	rep.Rule = "E1 lattice: projection parameterisations (merc 6, lcc/aea/eqdc 6 standard-parallel pairs each incl. 1SP, reversed and southern cones, tmerc 4 incl. omitted lat_0/k/false origin, utm all 120 zone/hemisphere values, krovak 2) x options one at a time (WGS84 datum, 7- and 3-term towgs84, ft, us-ft, sphere; for the first parameterisation of each projection (thorough: all) additionally a+rf, a+b, two prime meridians, every built-in ellipsoid and every built-in datum) x 20-63 positions spanning the usable region incl. its borders. Per (definition, position): G1 own geographic base -> projected -> geographic within 1e-6 deg and projected again within 1 cm; G2 the same from WGS84 long/lat through the datum shift; no error. Non-trivial = definitions with a non-default option or ellipsoid."
	rep.Assumptions = []string{"numerical property over a continuum: only the lattice points are covered", "only self-consistent definitions are generated (ellipsoid given once, no sphere with a named datum)"}
	defs := projlib.Lattice(tier == "thorough")
	rep.Set("definitions", len(defs))
	var n, nontrivial int64
	enum.Parallel(len(defs), rep.Expired, func(i int) {
		d := defs[i]
		noOrigin := !strings.Contains(d.Params, "x_0") && d.Proj != "utm" && d.Proj != "krovak"
		class := fmt.Sprintf("%s|%s", d.Proj, optionClass(d.Option))
		if noOrigin {
			class += "|false-origin-omitted"
		}
		for _, g := range []struct{ name, def string }{{"G1", d.Geo}, {"G2", "+proj=longlat +datum=WGS84"}} {
			fail := func(sym string, pt [2]float64, det string) {
				rep.Violation(fmt.Sprintf("%s|%s|%s", class, g.name, sym), map[string]interface{}{"geographic": g.def, "projected": d.Proj4, "position_lonlat": pt, "observed": det})
			}
			var fwd, inv proj.Transformer
			var err error
			if p := try(func() {
				var gs, ps *proj.SR
				gs, err = proj.Parse(g.def)
				if err != nil {
					return
				}
				ps, err = proj.Parse(d.Proj4)
				if err != nil {
					return
				}
				fwd, err = gs.NewTransform(ps)
				if err != nil {
					return
				}
				gs2, _ := proj.Parse(g.def)
				ps2, _ := proj.Parse(d.Proj4)
				inv, err = ps2.NewTransform(gs2)
			}); p != "" || err != nil || fwd == nil || inv == nil {
				fail("cannot-build-transformer", [2]float64{}, fmt.Sprint(p, err, fwd == nil, inv == nil))
				continue
			}
			for _, pt := range d.Pts {
				lon, lat := pt[0], pt[1]
				if g.name == "G1" {
					lon -= d.Pm
				}
				atomic.AddInt64(&n, 1)
				var x, y, lon2, lat2, x2, y2 float64
				var e1, e2, e3 error
				if p := try(func() {
					x, y, e1 = fwd(lon, lat)
					lon2, lat2, e2 = inv(x, y)
					x2, y2, e3 = fwd(lon2, lat2)
				}); p != "" {
					fail("panic", pt, p)
					break
				}
				if e1 != nil || e2 != nil || e3 != nil {
					fail("error", pt, fmt.Sprint(e1, e2, e3))
					break
				}
				if math.IsNaN(x+y+lon2+lat2+x2+y2) || math.IsInf(x+y, 0) {
					fail("not-finite", pt, fmt.Sprintf("forward %g %g, back %g %g", x, y, lon2, lat2))
					break
				}
				dl := math.Abs(lon2 - lon)
				if dl > 180 {
					dl = 360 - dl
				}
				if dl*math.Cos(lat*math.Pi/180) > 1e-6 && dl > 1e-6 || math.Abs(lat2-lat) > 1e-6 {
					fail("geographic-roundtrip-exceeds-1e-6deg", pt, fmt.Sprintf("(%.9f, %.9f) -> (%.4f, %.4f) -> (%.9f, %.9f)", lon, lat, x, y, lon2, lat2))
					break
				}
				if math.Hypot(x2-x, y2-y)*d.ToMeter > 0.01 {
					fail("projected-roundtrip-exceeds-1cm", pt, fmt.Sprintf("(%.4f, %.4f) -> (%.9f, %.9f) -> (%.4f, %.4f)", x, y, lon2, lat2, x2, y2))
					break
				}
			}
		}
		if d.Option != "base" {
			atomic.AddInt64(&nontrivial, 1)
		}
		if i%97 == 0 {
			rep.Sample(10, d.Proj4)
		}
	})
	if rep.Expired() {
		rep.Cap("wall budget expired")
	}
	rep.AddStates(int64(len(defs)))
	rep.AddTransitions(n * 3)
	rep.AddEvals(n)
	rep.AddNontrivial(nontrivial)
	rep.Finish()
}
