// C15 — Similar is a symmetric tolerance comparison ignoring only documented
// reorderings. Engine E1: for every geometry of a catalogue (all 8 types) every
// derived geometry of the listed kinds is generated and Similar is compared, in
// both directions, with the truth value the statement prescribes.
package main

import (
	"fmt"
	"math"
	"os"

	"github.com/ctessum/geom"

	"verif/mc/enum"
	"verif/mc/geomgen"
	"verif/mc/report"
)

var rep *report.Run
var nPairs, nNontrivial int64

func try(f func()) (p string) {
	defer func() {
		if r := recover(); r != nil {
			p = fmt.Sprint(r)
		}
	}()
	f()
	return ""
}

// expect records one pair.
func expect(g, h geom.Geom, tol float64, want bool, deriv string) {
	nPairs++
	if deriv != "identity" {
		nNontrivial++
	}
	kind := fmt.Sprintf("%T", g)
	var ab, ba bool
	if p := try(func() { ab = g.Similar(h, tol) }); p != "" {
		rep.Violation(fmt.Sprintf("%s|%s|panic", kind, deriv), map[string]interface{}{"g": fmt.Sprintf("%#v", g), "h": fmt.Sprintf("%#v", h), "tol": tol, "panic": p})
		return
	}
	if p := try(func() { ba = h.Similar(g, tol) }); p != "" {
		rep.Violation(fmt.Sprintf("%s|%s|panic-reversed", kind, deriv), map[string]interface{}{"g": fmt.Sprintf("%#v", g), "h": fmt.Sprintf("%#v", h), "tol": tol, "panic": p})
		return
	}
	if ab != ba {
		rep.Violation(fmt.Sprintf("%s|%s|asymmetric", kind, deriv), map[string]interface{}{"g": fmt.Sprintf("%#v", g), "h": fmt.Sprintf("%#v", h), "tol": tol, "g.Similar(h)": ab, "h.Similar(g)": ba, "want": want})
		return
	}
	if ab != want {
		rep.Violation(fmt.Sprintf("%s|%s|got-%v-want-%v", kind, deriv, ab, want), map[string]interface{}{"g": fmt.Sprintf("%#v", g), "h": fmt.Sprintf("%#v", h), "tol": tol})
		return
	}
	// memory layout and history: both operands with their vertex slices cut
	// from one flat buffer each, compared twice in both directions: the same
	// answers, and neither buffer written
	fg, wg := geomgen.FlatBacked(g)
	fh, wh := geomgen.FlatBacked(h)
	for round := 0; round < 2; round++ {
		var x, y bool
		if p := try(func() { x, y = fg.Similar(fh, tol), fh.Similar(fg, tol) }); p != "" {
			rep.Violation(fmt.Sprintf("%s|%s|flat-buffer-operands|panic", kind, deriv), map[string]interface{}{"g": fmt.Sprintf("%#v", g), "h": fmt.Sprintf("%#v", h), "tol": tol, "panic": p})
			return
		}
		if w := wg() + wh(); w != "" {
			rep.Violation(fmt.Sprintf("%s|%s|flat-buffer-operands|caller-buffer-written", kind, deriv), map[string]interface{}{"g": fmt.Sprintf("%#v", g), "h": fmt.Sprintf("%#v", h), "tol": tol, "observed": w})
			return
		}
		if x != want || y != want {
			rep.Violation(fmt.Sprintf("%s|%s|flat-buffer-operands|round-%d|got-%v,%v-want-%v", kind, deriv, round+1, x, y, want), map[string]interface{}{"g": fmt.Sprintf("%#v", g), "h": fmt.Sprintf("%#v", h), "tol": tol})
			return
		}
	}
}

// mapPoints returns a deep copy of g with f applied to every vertex (index in
// storage order).
func mapPoints(g geom.Geom, f func(i int, p geom.Point) geom.Point) geom.Geom {
	i := 0
	var rec func(g geom.Geom) geom.Geom
	pts := func(in []geom.Point) []geom.Point {
		o := make([]geom.Point, len(in))
		for k, p := range in {
			o[k] = f(i, p)
			i++
		}
		return o
	}
	rec = func(g geom.Geom) geom.Geom {
		switch t := g.(type) {
		case geom.Point:
			p := f(i, t)
			i++
			return p
		case *geom.Bounds:
			a := f(i, t.Min)
			b := f(i+1, t.Max)
			i += 2
			return &geom.Bounds{Min: a, Max: b}
		case geom.MultiPoint:
			return geom.MultiPoint(pts(t))
		case geom.LineString:
			return geom.LineString(pts(t))
		case geom.MultiLineString:
			o := make(geom.MultiLineString, len(t))
			for k, l := range t {
				o[k] = pts(l)
			}
			return o
		case geom.Polygon:
			o := make(geom.Polygon, len(t))
			for k, r := range t {
				if len(r) > 1 && r[0] == r[len(r)-1] {
					// keep closed rings closed: the closing vertex gets the first vertex's image
					q := pts(r[:len(r)-1])
					o[k] = append(q, q[0])
				} else {
					o[k] = pts(r)
				}
			}
			return o
		case geom.MultiPolygon:
			o := make(geom.MultiPolygon, len(t))
			for k, p := range t {
				o[k] = rec(p).(geom.Polygon)
			}
			return o
		case geom.GeometryCollection:
			o := make(geom.GeometryCollection, len(t))
			for k, m := range t {
				o[k] = rec(m)
			}
			return o
		}
		panic("unknown type")
	}
	return rec(g)
}

func clone(g geom.Geom) geom.Geom {
	return mapPoints(g, func(_ int, p geom.Point) geom.Point { return p })
}

func nPoints(g geom.Geom) int {
	n := 0
	mapPoints(g, func(i int, p geom.Point) geom.Point { n = i + 1; return p })
	return n
}

// members returns the reorderable member list of g and a constructor, or nil.
func members(g geom.Geom) ([]interface{}, func([]interface{}) geom.Geom) {
	switch t := g.(type) {
	case geom.MultiLineString:
		m := make([]interface{}, len(t))
		for i := range t {
			m[i] = t[i]
		}
		return m, func(x []interface{}) geom.Geom {
			o := make(geom.MultiLineString, len(x))
			for i := range x {
				o[i] = x[i].(geom.LineString)
			}
			return o
		}
	case geom.Polygon:
		m := make([]interface{}, len(t))
		for i := range t {
			m[i] = t[i]
		}
		return m, func(x []interface{}) geom.Geom {
			o := make(geom.Polygon, len(x))
			for i := range x {
				o[i] = x[i].(geom.Path)
			}
			return o
		}
	case geom.MultiPolygon:
		m := make([]interface{}, len(t))
		for i := range t {
			m[i] = t[i]
		}
		return m, func(x []interface{}) geom.Geom {
			o := make(geom.MultiPolygon, len(x))
			for i := range x {
				o[i] = x[i].(geom.Polygon)
			}
			return o
		}
	case geom.GeometryCollection:
		m := make([]interface{}, len(t))
		for i := range t {
			m[i] = t[i]
		}
		return m, func(x []interface{}) geom.Geom {
			o := make(geom.GeometryCollection, len(x))
			for i := range x {
				o[i] = x[i].(geom.Geom)
			}
			return o
		}
	}
	return nil, nil
}

// rotateRings returns g with every closed ring's start vertex rotated by k.
func rotateRings(g geom.Geom, k int) geom.Geom {
	rot := func(r geom.Path) geom.Path {
		if len(r) < 3 || r[0] != r[len(r)-1] {
			return r
		}
		n := len(r) - 1
		o := make(geom.Path, 0, len(r))
		for i := 0; i < n; i++ {
			o = append(o, r[(i+k)%n])
		}
		return append(o, o[0])
	}
	switch t := g.(type) {
	case geom.Polygon:
		o := make(geom.Polygon, len(t))
		for i, r := range t {
			o[i] = rot(r)
		}
		return o
	case geom.MultiPolygon:
		o := make(geom.MultiPolygon, len(t))
		for i, p := range t {
			o[i] = rotateRings(p, k).(geom.Polygon)
		}
		return o
	case geom.GeometryCollection:
		o := make(geom.GeometryCollection, len(t))
		for i, m := range t {
			o[i] = rotateRings(m, k)
		}
		return o
	}
	return g
}

func catalogue() []geom.Geom {
	sq := func(x, y, s float64) geom.Path {
		return geom.Path{{X: x, Y: y}, {X: x + s, Y: y}, {X: x + s, Y: y + s}, {X: x, Y: y + s}, {X: x, Y: y}}
	}
	gen := func(x, y float64) geom.Path { // general position quadrilateral, closed
		return geom.Path{{X: x, Y: y + 11}, {X: x + 410, Y: y + 33}, {X: x + 370, Y: y + 440}, {X: x + 25, Y: y + 390}, {X: x, Y: y + 11}}
	}
	pAxis := geom.Polygon{sq(0, 0, 400), sq(100, 100, 100), sq(250, 250, 100)}
	pGen := geom.Polygon{gen(0, 0), {{X: 100, Y: 110}, {X: 200, Y: 121}, {X: 150, Y: 205}, {X: 100, Y: 110}}, {{X: 230, Y: 260}, {X: 330, Y: 247}, {X: 300, Y: 350}, {X: 230, Y: 260}}}
	pOpen := geom.Polygon{{{X: 13, Y: 0}, {X: 400, Y: 20}, {X: 380, Y: 410}, {X: 0, Y: 390}}, {{X: 110, Y: 100}, {X: 200, Y: 120}, {X: 100, Y: 200}}}
	pOpenMinLast := geom.Polygon{{{X: 400, Y: 20}, {X: 380, Y: 410}, {X: 13, Y: 390}, {X: 0, Y: 0}}}
	shift := func(p geom.Polygon, dx float64) geom.Polygon {
		return mapPoints(p, func(_ int, q geom.Point) geom.Point { return geom.Point{X: q.X + dx, Y: q.Y} }).(geom.Polygon)
	}
	return []geom.Geom{
		geom.Point{X: 3, Y: 4},
		geom.MultiPoint{{X: 0, Y: 0}, {X: 100, Y: 0}, {X: 0, Y: 100}},
		geom.MultiPoint{},
		geom.LineString{{X: 0, Y: 0}, {X: 100, Y: 0}, {X: 100, Y: 130}},
		geom.LineString{{X: 7, Y: 9}},
		geom.MultiLineString{{{X: 0, Y: 0}, {X: 100, Y: 0}}, {{X: 200, Y: 0}, {X: 300, Y: 0}, {X: 300, Y: 100}}, {{X: 0, Y: 200}, {X: 100, Y: 210}}},
		geom.MultiLineString{{{X: 0, Y: 0}, {X: 100, Y: 0}}},
		pAxis, pGen, pOpen, pOpenMinLast,
		// distinct members with one and the same bounding box (the two diagonals of
		// a rectangle, a line and its reverse, the rectangle and its corner points)
		geom.GeometryCollection{geom.LineString{{X: 0, Y: 0}, {X: 400, Y: 200}}, geom.LineString{{X: 0, Y: 200}, {X: 400, Y: 0}}, geom.LineString{{X: 400, Y: 200}, {X: 0, Y: 0}},
			geom.Polygon{{{X: 0, Y: 0}, {X: 400, Y: 0}, {X: 400, Y: 200}, {X: 0, Y: 200}, {X: 0, Y: 0}}}, geom.MultiPoint{{X: 0, Y: 0}, {X: 400, Y: 0}, {X: 400, Y: 200}, {X: 0, Y: 200}}},
		geom.MultiLineString{{{X: 0, Y: 0}, {X: 400, Y: 200}}, {{X: 0, Y: 200}, {X: 400, Y: 0}}, {{X: 400, Y: 200}, {X: 0, Y: 0}}},
		// the same member twice (identical members need not be apart)
		geom.MultiLineString{{{X: 0, Y: 0}, {X: 100, Y: 0}}, {{X: 0, Y: 0}, {X: 100, Y: 0}}, {{X: 200, Y: 0}, {X: 300, Y: 0}, {X: 300, Y: 100}}},
		geom.MultiLineString{{{X: 0, Y: 0}, {X: 100, Y: 0}}, {{X: 0, Y: 0}, {X: 100, Y: 0}}},
		geom.GeometryCollection{geom.Point{X: 3, Y: 4}, geom.LineString{{X: 50, Y: 0}, {X: 150, Y: 0}}, geom.Point{X: 3, Y: 4}, geom.LineString{{X: 50, Y: 0}, {X: 150, Y: 0}}},
		geom.MultiPolygon{geom.Polygon{gen(0, 0)}, geom.Polygon{gen(0, 0)}, shift(geom.Polygon{gen(0, 0)}, 2000)},
		// five and six members of every reorderable kind: every permutation (the
		// matching removes candidates one by one; its book-keeping only shows
		// with four or more)
		geom.Polygon{sq(0, 0, 1000), sq(100, 100, 50), sq(300, 100, 60), sq(500, 100, 70), sq(100, 500, 80)},
		geom.Polygon{sq(0, 0, 1000), sq(100, 100, 50), sq(300, 100, 60), sq(500, 100, 70), sq(100, 500, 80), gen(2000, 0)},
		geom.MultiLineString{{{X: 0, Y: 0}, {X: 100, Y: 0}}, {{X: 200, Y: 0}, {X: 300, Y: 10}}, {{X: 400, Y: 0}, {X: 500, Y: 20}}, {{X: 600, Y: 0}, {X: 700, Y: 30}, {X: 800, Y: 0}}, {{X: 0, Y: 300}, {X: 100, Y: 300}}},
		geom.MultiLineString{{{X: 0, Y: 0}, {X: 100, Y: 0}}, {{X: 200, Y: 0}, {X: 300, Y: 10}}, {{X: 400, Y: 0}, {X: 500, Y: 20}}, {{X: 600, Y: 0}, {X: 700, Y: 30}, {X: 800, Y: 0}}, {{X: 0, Y: 300}, {X: 100, Y: 300}}, {{X: 0, Y: 600}, {X: 100, Y: 700}}},
		geom.MultiPolygon{{sq(0, 0, 100)}, {sq(300, 0, 110)}, {sq(600, 0, 120), sq(610, 10, 20)}, {sq(900, 0, 130)}, {gen(0, 1000)}},
		geom.MultiPolygon{{sq(0, 0, 100)}, {sq(300, 0, 110)}, {sq(600, 0, 120), sq(610, 10, 20)}, {sq(900, 0, 130)}, {gen(0, 1000)}, {sq(0, 3000, 100)}},
		geom.GeometryCollection{geom.Point{X: 0, Y: 0}, geom.Point{X: 500, Y: 0}, geom.LineString{{X: 1000, Y: 0}, {X: 1100, Y: 0}}, geom.LineString{{X: 1500, Y: 0}, {X: 1600, Y: 0}}, geom.Polygon{sq(2000, 0, 100)}},
		geom.GeometryCollection{geom.Point{X: 0, Y: 0}, geom.Point{X: 500, Y: 0}, geom.LineString{{X: 1000, Y: 0}, {X: 1100, Y: 0}}, geom.LineString{{X: 1500, Y: 0}, {X: 1600, Y: 0}}, geom.Polygon{sq(2000, 0, 100)}, geom.MultiPoint{{X: 3000, Y: 0}}},
		// many members (40 lines, 33 polygons, 64 points in a collection)
		func() geom.Geom {
			var o geom.MultiLineString
			for i := 0; i < 40; i++ {
				o = append(o, geom.LineString{{X: float64(200 * i), Y: 0}, {X: float64(200*i + 100), Y: float64(10 + i)}})
			}
			return o
		}(),
		func() geom.Geom {
			var o geom.MultiPolygon
			for i := 0; i < 33; i++ {
				o = append(o, geom.Polygon{sq(float64(1000*i), float64(7*i), 400)})
			}
			return o
		}(),
		func() geom.Geom {
			var o geom.GeometryCollection
			for i := 0; i < 64; i++ {
				o = append(o, geom.Point{X: float64(300 * (i % 8)), Y: float64(300 * (i / 8))})
			}
			return o
		}(),
		// sliver rings thinner than the larger tolerance: a perturbation below the
		// tolerance flips their winding
		geom.Polygon{{{X: 0, Y: 0}, {X: 100, Y: 0.04}, {X: 200, Y: 0}, {X: 0, Y: 0}}},
		geom.Polygon{sq(0, 0, 400), {{X: 100, Y: 100}, {X: 200, Y: 100.03}, {X: 300, Y: 100}, {X: 100, Y: 100}}},
		// a closed ring that visits one vertex twice (two loops touching at the
		// origin): a rotation may start at either visit
		geom.Polygon{{{X: 0, Y: 0}, {X: 100, Y: 0}, {X: 100, Y: 100}, {X: 0, Y: 0}, {X: -100, Y: 0}, {X: -100, Y: -100}, {X: 0, Y: 0}}},
		geom.Polygon{gen(0, 0)},
		geom.MultiPolygon{pGen, shift(pGen, 1000), shift(geom.Polygon{gen(0, 0)}, 2000)},
		geom.MultiPolygon{pAxis, shift(pAxis, 1000)},
		geom.MultiPolygon{geom.Polygon{gen(0, 0)}},
		&geom.Bounds{Min: geom.Point{X: 0, Y: 0}, Max: geom.Point{X: 100, Y: 120}},
		// collections nested 40 and 100 deep
		func() geom.Geom {
			var g geom.Geom = geom.GeometryCollection{geom.Point{X: 3, Y: 4}, geom.LineString{{X: 500, Y: 0}, {X: 650, Y: 0}, {X: 650, Y: 130}}}
			for i := 0; i < 40; i++ {
				g = geom.GeometryCollection{g}
			}
			return g
		}(),
		func() geom.Geom {
			var g geom.Geom = geom.GeometryCollection{geom.MultiPoint{{X: 0, Y: 500}, {X: 100, Y: 500}}}
			for i := 0; i < 100; i++ {
				g = geom.GeometryCollection{g}
			}
			return geom.GeometryCollection{geom.Point{X: -900, Y: -900}, g}
		}(),
		// flat boxes: the bounds of a vertical line, of a horizontal line and of a point
		&geom.Bounds{Min: geom.Point{X: 100, Y: 0}, Max: geom.Point{X: 100, Y: 120}},
		&geom.Bounds{Min: geom.Point{X: 0, Y: 120}, Max: geom.Point{X: 100, Y: 120}},
		&geom.Bounds{Min: geom.Point{X: 300, Y: 300}, Max: geom.Point{X: 300, Y: 300}},
		geom.GeometryCollection{&geom.Bounds{Min: geom.Point{X: 100, Y: 0}, Max: geom.Point{X: 100, Y: 120}}, geom.Point{X: 500, Y: 500}},
		geom.GeometryCollection{geom.Point{X: 3, Y: 4}, geom.LineString{{X: 50, Y: 0}, {X: 150, Y: 0}, {X: 150, Y: 130}}, shift(pGen, 1000), geom.MultiPoint{{X: 0, Y: 500}, {X: 100, Y: 500}}, &geom.Bounds{Min: geom.Point{X: 0, Y: 700}, Max: geom.Point{X: 100, Y: 820}}},
		geom.GeometryCollection{geom.GeometryCollection{geom.Point{X: 3, Y: 4}, geom.Point{X: 300, Y: 4}}, geom.Point{X: 600, Y: 4}},
		geom.GeometryCollection{},
	}
}

type variant struct {
	h    geom.Geom
	want bool
	name string
}

var signs = []func(i int) (float64, float64){
	func(i int) (float64, float64) { return 1, 1 },
	func(i int) (float64, float64) { return -1, -1 },
	func(i int) (float64, float64) { return 1, -1 },
	func(i int) (float64, float64) { s := float64(1 - 2*(i%2)); return s, s },
	func(i int) (float64, float64) { s := float64(1 - 2*(i%2)); return -s, s },
	func(i int) (float64, float64) { s := float64(1 - 2*((i/2)%2)); return s, -s },
}


// seqs returns the vertex sequences g holds at its own level (the line, the
// points of a multi-point, the members of a multi-line string, the rings of a
// polygon) and a constructor that rebuilds g from edited sequences.
func seqs(g geom.Geom) ([][]geom.Point, bool, func([][]geom.Point) geom.Geom) {
	cp := func(p []geom.Point) []geom.Point { return append([]geom.Point{}, p...) }
	switch t := g.(type) {
	case geom.LineString:
		return [][]geom.Point{cp(t)}, false, func(x [][]geom.Point) geom.Geom { return geom.LineString(x[0]) }
	case geom.MultiPoint:
		return [][]geom.Point{cp(t)}, false, func(x [][]geom.Point) geom.Geom { return geom.MultiPoint(x[0]) }
	case geom.MultiLineString:
		o := make([][]geom.Point, len(t))
		for i := range t {
			o[i] = cp(t[i])
		}
		return o, false, func(x [][]geom.Point) geom.Geom {
			m := make(geom.MultiLineString, len(x))
			for i := range x {
				m[i] = x[i]
			}
			return m
		}
	case geom.Polygon:
		o := make([][]geom.Point, len(t))
		for i := range t {
			o[i] = cp(t[i])
		}
		return o, true, func(x [][]geom.Point) geom.Geom {
			m := make(geom.Polygon, len(x))
			for i := range x {
				m[i] = x[i]
			}
			return m
		}
	}
	return nil, false, nil
}

// sameCycle reports whether two rings list exactly the same vertices in the
// same cyclic order (closing vertex ignored).
func sameCycle(a, b []geom.Point) bool {
	if len(a) > 1 && a[0] == a[len(a)-1] {
		a = a[:len(a)-1]
	}
	if len(b) > 1 && b[0] == b[len(b)-1] {
		b = b[:len(b)-1]
	}
	if len(a) != len(b) {
		return false
	}
	if len(a) == 0 {
		return true
	}
	for s := range b {
		ok := true
		for i := range a {
			if a[i] != b[(s+i)%len(b)] {
				ok = false
				break
			}
		}
		if ok {
			return true
		}
	}
	return false
}

// vertexCountVariants: in every vertex sequence of g every vertex deleted,
// doubled, a midpoint inserted after it (the counts differ: false), and every
// two neighbours exchanged when they are further apart than the tolerance (two
// vertices displaced: false, unless a ring keeps its cyclic order).
func vertexCountVariants(g geom.Geom, tol float64, add func(geom.Geom, bool, string)) {
	ss, ring, mk := seqs(g)
	_, isMP := g.(geom.MultiPoint)
	for si := range ss {
		n := len(ss[si])
		if n > 40 {
			continue
		}
		with := func(q []geom.Point) geom.Geom {
			x := make([][]geom.Point, len(ss))
			for i := range ss {
				x[i] = append([]geom.Point{}, ss[i]...)
			}
			x[si] = q
			return mk(x)
		}
		for v := 0; v < n; v++ {
			s := ss[si]
			add(with(append(append([]geom.Point{}, s[:v]...), s[v+1:]...)), false, "vertex-deleted")
			add(with(append(append(append([]geom.Point{}, s[:v+1]...), s[v]), s[v+1:]...)), false, "vertex-doubled")
			if v+1 < n {
				mid := geom.Point{X: (s[v].X + s[v+1].X) / 2, Y: (s[v].Y + s[v+1].Y) / 2}
				add(with(append(append(append([]geom.Point{}, s[:v+1]...), mid), s[v+1:]...)), false, "vertex-inserted")
				if isMP {
					continue
				}
				if math.Abs(s[v].X-s[v+1].X) < 3*tol && math.Abs(s[v].Y-s[v+1].Y) < 3*tol {
					continue
				}
				q := append([]geom.Point{}, s...)
				q[v], q[v+1] = q[v+1], q[v]
				if ring && sameCycle(q, s) {
					continue
				}
				add(with(q), false, "neighbours-exchanged")
			}
		}
	}
}

// localVariants derives geometries from g at its own level.
func localVariants(g geom.Geom, tol float64, salt int) []variant {
	var out []variant
	add := func(h geom.Geom, want bool, name string) { out = append(out, variant{h, want, name}) }
	add(clone(g), true, "identity")
	np := nPoints(g)
	perturbed := make([]geom.Geom, len(signs))
	for si, sg := range signs {
		h := mapPoints(g, func(i int, p geom.Point) geom.Point {
			sx, sy := sg(i)
			return geom.Point{X: p.X + sx*tol/2, Y: p.Y + sy*tol/2}
		})
		perturbed[si] = h
		add(h, true, "perturbed")
		if si < 2 {
			// both coordinates of every vertex off by 0.9 tol: each coordinate is
			// perturbed by less than tol although the vertex moves by 1.27 tol
			add(mapPoints(g, func(i int, p geom.Point) geom.Point {
				sx, sy := sg(i)
				return geom.Point{X: p.X + sx*0.9*tol, Y: p.Y + sy*0.9*tol}
			}), true, "perturbed-0.9-both-coordinates")
		}
	}
	for v := 0; v < np; v++ {
		for axis := 0; axis < 2; axis++ {
			for _, s := range []float64{2, -2, 1.2, -1.2} {
				h := mapPoints(g, func(i int, p geom.Point) geom.Point {
					if i == v {
						if axis == 0 {
							p.X += s * tol
						} else {
							p.Y += s * tol
						}
					}
					return p
				})
				add(h, false, "vertex-displaced")
			}
		}
	}
	vertexCountVariants(g, tol, add)
	// the closing vertex of a closed ring displaced on its own
	if pg, ok := g.(geom.Polygon); ok {
		for ri, r := range pg {
			if len(r) > 2 && r[0] == r[len(r)-1] {
				for _, s := range []float64{2, -1000} {
					h := clone(g).(geom.Polygon)
					h[ri][len(r)-1].X += s * tol
					add(h, false, "closing-vertex-displaced")
				}
			}
		}
	}
	for k := 1; k < 4; k++ {
		add(rotateRings(g, k), true, "ring-rotated")
		add(rotateRings(perturbed[3], k), true, "ring-rotated+perturbed")
	}
	if ms, mk := members(g); ms != nil && len(ms) > 6 {
		// many members: reversal, rotation by one and by half, swap of the first
		// two and of the last two instead of all permutations
		n := len(ms)
		perms := [][]int{make([]int, n), make([]int, n), make([]int, n), make([]int, n), make([]int, n)}
		for i := 0; i < n; i++ {
			perms[0][i] = n - 1 - i
			perms[1][i] = (i + 1) % n
			perms[2][i] = (i + n/2) % n
			perms[3][i] = i
			perms[4][i] = i
		}
		perms[3][0], perms[3][1] = 1, 0
		perms[4][n-1], perms[4][n-2] = n-2, n-1
		pm, _ := members(perturbed[salt%len(signs)])
		for _, p := range perms {
			x := make([]interface{}, n)
			y := make([]interface{}, n)
			for i, k := range p {
				x[i], y[i] = ms[k], pm[k]
			}
			add(mk(x), true, "members-permuted")
			add(mk(y), true, "members-permuted+perturbed")
		}
		for _, i := range []int{0, n / 2, n - 1} {
			del := append(append([]interface{}{}, ms[:i]...), ms[i+1:]...)
			add(mk(del), false, "member-deleted")
			dup := append(append([]interface{}{}, ms...), ms[i])
			add(mk(dup), false, "member-duplicated")
		}
	} else if ms != nil {
		enum.Permutations(len(ms), func(p []int) bool {
			x := make([]interface{}, len(ms))
			for i, k := range p {
				x[i] = ms[k]
			}
			add(mk(x), true, "members-permuted")
			pm, _ := members(perturbed[salt%len(signs)])
			y := make([]interface{}, len(ms))
			for i, k := range p {
				y[i] = pm[k]
			}
			add(mk(y), true, "members-permuted+perturbed")
			return true
		})
		for i := range ms {
			del := append(append([]interface{}{}, ms[:i]...), ms[i+1:]...)
			add(mk(del), false, "member-deleted")
			for pos := 0; pos <= len(ms); pos++ {
				dup := append(append(append([]interface{}{}, ms[:pos]...), ms[i]), ms[pos:]...)
				add(mk(dup), false, "member-duplicated")
			}
		}
	}
	switch t := g.(type) {
	case geom.LineString:
		if len(t) > 1 {
			r := make(geom.LineString, len(t))
			for i := range t {
				r[i] = t[len(t)-1-i]
			}
			add(r, false, "line-reversed")
		}
	case geom.MultiLineString:
		for m := range t {
			if len(t[m]) < 2 {
				continue
			}
			h := clone(g).(geom.MultiLineString)
			for i, j := 0, len(h[m])-1; i < j; i, j = i+1, j-1 {
				h[m][i], h[m][j] = h[m][j], h[m][i]
			}
			add(h, false, "line-reversed")
		}
	}
	fl := geomgen.Flatten(g)
	var alts []geom.Geom
	alts = append(alts, geom.MultiPoint(fl), geom.LineString(fl), geom.MultiLineString{fl}, geom.Polygon{fl}, geom.MultiPolygon{{fl}}, geom.GeometryCollection{g})
	if len(fl) > 0 {
		alts = append(alts, fl[0])
	}
	if len(fl) >= 2 {
		alts = append(alts, &geom.Bounds{Min: fl[0], Max: fl[1]})
	}
	for _, h := range alts {
		if fmt.Sprintf("%T", h) != fmt.Sprintf("%T", g) {
			add(h, false, "type-changed")
		}
	}
	return out
}

// allVariants adds, for containers, every variant of every member (nested to
// depth 2) with the other members unchanged.
func allVariants(g geom.Geom, tol float64, salt, depth int) []variant {
	out := localVariants(g, tol, salt)
	ms, mk := members(g)
	if ms == nil || depth >= 2 {
		return out
	}
	_, isGC := g.(geom.GeometryCollection)
	for i, m := range ms {
		var mg geom.Geom
		switch t := m.(type) {
		case geom.Path:
			continue // rings are handled at the polygon level
		case geom.Geom:
			mg = t
		}
		for _, v := range allVariants(mg, tol, salt+i, depth+1) {
			if v.name == "identity" {
				continue
			}
			if !isGC && fmt.Sprintf("%T", v.h) != fmt.Sprintf("%T", mg) {
				continue
			}
			x := append([]interface{}{}, ms...)
			x[i] = v.h
			out = append(out, variant{mk(x), v.want, "nested:" + v.name})
		}
	}
	return out
}

// generated adds a programmatic family for the thorough tier: rings of 3..6
// vertices (jittered regular polygons, closed), polygons of 1..3 such rings,
// multi-polygons of 1..3 polygons, multi-line strings and collections built
// from the same vertices. Members are >= 150 apart, tolerances <= 0.1.
func generated() []geom.Geom {
	ring := func(id, n int) geom.Path {
		cx, cy := float64(300*(id%7)), float64(300*(id/7))
		var r geom.Path
		for k := 0; k < n; k++ {
			a := 2*math.Pi*float64(k)/float64(n) + 0.3*float64(id%5)
			j := float64((id*31+k*17)%13) - 6
			r = append(r, geom.Point{X: cx + (60+j)*math.Cos(a), Y: cy + (60-j)*math.Sin(a)})
		}
		return append(r, r[0])
	}
	var out []geom.Geom
	id := 0
	var polys []geom.Polygon
	for rings := 1; rings <= 3; rings++ {
		for n := 3; n <= 6; n++ {
			var p geom.Polygon
			for k := 0; k < rings; k++ {
				p = append(p, ring(id, n+(k%2)))
				id++
			}
			polys = append(polys, p)
			out = append(out, p)
		}
	}
	for m := 1; m <= 3; m++ {
		for s := 0; s+m <= len(polys); s += 4 {
			out = append(out, geom.MultiPolygon(polys[s:s+m]))
		}
	}
	for m := 1; m <= 3; m++ {
		var ml geom.MultiLineString
		for k := 0; k < m; k++ {
			r := ring(40+id, 3+k)
			id++
			ml = append(ml, geom.LineString(r[:len(r)-1]))
		}
		out = append(out, ml, geom.MultiPoint(ml[0]), ml[0])
	}
	out = append(out, geom.GeometryCollection{polys[0], geom.MultiPolygon(polys[4:6]), geom.LineString(ring(90, 4)[:4]), geom.GeometryCollection{polys[9], geom.Point{X: 5000, Y: 5000}}})
	return out
}

func main() {
	tier := "quick"
	if len(os.Args) > 1 {
		tier = os.Args[1]
	}
	if tier == "replay" {
		b, _ := os.ReadFile(os.Args[2])
		fmt.Printf("%s\nThe case holds both geometries as Go literals and the tolerance.\n", b)
		return
	}
	rep = report.New("C15", tier, "model_checking")
	rep.Rule = "E1: 45 base geometries of all eight types (collections nested 40 and 100 deep; boxes also flat: the bounds of a vertical / horizontal line and of a point; axis-aligned and general-position rings, closed and unclosed, a ring visiting one vertex twice, sliver rings thinner than the tolerance, multi-geometries of 5 and 6 members (every permutation) and of 33..64 members, multi-geometries holding the same member twice, distinct members sharing one bounding box, nested collections, empty geometries) whose members are >= 90 apart, tol in {1e-3, 0.1}, and the same geometries shifted by (2e7,-3e7) with tol 1e-9 (below the float spacing there); for each every derived h: identity; all coordinates perturbed by +-tol/2 in 6 sign patterns (expected true); every permutation of members combined with perturbation (true); every start rotation of closed rings (true); all coordinates perturbed by 0.9 tol (true); every single coordinate displaced by 2*tol and by 1.2*tol, incl. the closing vertex of a closed ring on its own (false); every member deleted / duplicated at every position (false); in every line, ring and multi-point every vertex deleted, doubled, a midpoint inserted after it, and (lines, rings) every two neighbours exchanged (false); every line / line member reversed (false); change of type with identical vertices (false); and, for containers, every such derivation applied to every member with the other members unchanged (nested to depth 2: rings permuted inside a multi-polygon member, members of a nested collection, ...). Every pair is evaluated in both directions (symmetry), and again twice with both operands cut from flat vertex buffers (same answers, buffers not written). Non-trivial = every derivation other than identity."
	cat := catalogue()
	if tier == "thorough" {
		cat = append(cat, generated()...)
	}
	tols := []float64{1e-3, 0.1}
	for gi, g := range cat {
		for _, tol := range tols {
			for _, v := range allVariants(g, tol, gi, 0) {
				expect(g, v.h, tol, v.want, v.name)
			}
			for hi, h := range cat {
				if hi != gi && fmt.Sprintf("%T", h) == fmt.Sprintf("%T", g) {
					expect(g, h, tol, false, "different-geometry")
				}
			}
		}
		// far from the origin: the same geometry shifted by (2e7, -3e7), tolerance
		// 1e-9 (below the spacing of float64 there): every derivation whose image
		// is representable, i.e. differs from the original for an expected false
		if _, isB := g.(*geom.Bounds); !isB {
			far := mapPoints(g, func(_ int, q geom.Point) geom.Point { return geom.Point{X: q.X + 2e7, Y: q.Y - 3e7} })
			for _, v := range allVariants(far, 1e-9, gi, 0) {
				if !v.want && geomgen.Diff(far, v.h, true) == "" {
					continue // the displacement vanished in rounding
				}
				expect(far, v.h, 1e-9, v.want, v.name+"|far-from-origin")
			}
		}
		if gi%3 == 0 {
			rep.Sample(8, fmt.Sprintf("%#v", g))
		}
	}
	rep.AddStates(nPairs)
	rep.AddTransitions(nPairs * 2)
	rep.AddEvals(nPairs)
	rep.AddNontrivial(nNontrivial)
	rep.Finish()
}
