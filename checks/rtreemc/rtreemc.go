// Package rtreemc is the shared explicit-state exploration of the real R-tree
// used by the C11 (search / structure) and C12 (nearest neighbours) checks.
package rtreemc

import (
	"bytes"
	"encoding/binary"
	"fmt"
	"math"
	"sort"
	"strings"
	"sync"
	"sync/atomic"

	"github.com/ctessum/geom"
	"github.com/ctessum/geom/index/rtree"

	"verif/mc/bfs"
	"verif/mc/enum"
	"verif/mc/report"
)

// St is one explored state: the real tree and the reference multiset.
type St struct {
	T      *rtree.Rtree
	Counts []uint8
}

// Universe is the object alphabet.
type Universe struct {
	Objs []geom.Geom
	Dup  []bool // may be inserted a second time
	Min  int
	Max  int
	idx  map[geom.Geom]int
	// orig holds the boxes of the objects as they were created (a tree must
	// never modify a stored object; the oracles compare with these copies).
	orig []geom.Bounds
	// Queries are the SearchIntersect query boxes, QPoints the nearest-neighbour
	// query points used with this alphabet.
	Queries []*geom.Bounds
	QPoints []geom.Point
}

func box(x0, y0, x1, y1 float64) *geom.Bounds {
	return &geom.Bounds{Min: geom.Point{X: x0, Y: y0}, Max: geom.Point{X: x1, Y: y1}}
}

// NewUniverse builds the alphabet of n objects on the {0..3}² grid: coincident
// boxes (o0,o1), a degenerate box nested in them (o3), equal-area boxes, a
// value-typed point, a box containing everything, and so on.
func NewUniverse(n, min, max int, dups ...int) *Universe {
	all := []geom.Geom{
		box(0, 0, 1, 1),        // o0
		box(0, 0, 1, 1),        // o1 coincident with o0, distinct identity
		box(2, 2, 3, 3),        // o2
		box(1, 1, 1, 1),        // o3 degenerate, on the corner of o0/o1
		box(0, 2, 1, 3),        // o4
		geom.Point{X: 3, Y: 0}, // o5 value-typed object
		box(0, 0, 3, 3),        // o6 contains everything
		box(2, 0, 3, 1),        // o7
		geom.Point{X: 2, Y: 2}, // o8 touches o2's corner
		box(1, 0, 2, 3),        // o9 tall box
		box(0, 1, 3, 2),        // o10 wide box
		box(3, 3, 3, 3),        // o11 degenerate in the far corner
		box(1, 2, 2, 3),        // o12
		box(0, 3, 0, 3),        // o13
		box(2, 1, 3, 2),        // o14
		box(1, 1, 2, 2),        // o15 centre
	}
	u := &Universe{Objs: all[:n], Dup: make([]bool, n), Min: min, Max: max, idx: map[geom.Geom]int{}, Queries: queries, QPoints: qpoints}
	for _, d := range dups {
		u.Dup[d] = true
	}
	for i, o := range u.Objs {
		u.idx[o] = i
	}
	return u
}

// NewSpreadUniverse is a second alphabet: n small objects (unit boxes, points,
// degenerate boxes) spread over a 6x6 area with no object covering the others,
// so that the envelopes of inner nodes shrink and grow with the history (which
// the compact alphabet, dominated by its all-covering box, cannot show).
func NewSpreadUniverse(n, min, max int, dups ...int) *Universe {
	all := []geom.Geom{
		box(0, 0, 1, 1), box(4, 4, 5, 5), box(4, 0, 5, 1), box(0, 4, 1, 5), box(2, 2, 3, 3),
		geom.Point{X: 1.5, Y: 3.5}, box(2, 0, 3, 1), box(0, 2, 1, 3), geom.Point{X: 3.5, Y: 1.5},
		box(4, 2, 5, 3), box(2, 4, 3, 5), box(5, 5, 5, 5), box(1.5, 1.5, 1.5, 1.5), box(3.5, 3.5, 3.5, 3.5),
		box(0, 0, 0, 0), box(2, 2, 3, 3),
	}
	u := &Universe{Objs: all[:n], Dup: make([]bool, n), Min: min, Max: max, idx: map[geom.Geom]int{}}
	for _, d := range dups {
		u.Dup[d] = true
	}
	for i, o := range u.Objs {
		u.idx[o] = i
	}
	spreadQueries(u)
	return u
}

// spreadQueries fills in the query boxes and points over the [0,5]^2 area.
func spreadQueries(u *Universe) {
	for x0 := 0; x0 <= 5; x0++ {
		for x1 := x0; x1 <= 5; x1++ {
			for y0 := 0; y0 <= 5; y0++ {
				for y1 := y0; y1 <= 5; y1++ {
					if (x0+y0+x1+y1)%2 == 0 || x0 == x1 || y0 == y1 {
						u.Queries = append(u.Queries, box(float64(x0), float64(y0), float64(x1), float64(y1)))
					}
				}
			}
		}
	}
	u.Queries = append(u.Queries, box(1.25, 1.25, 1.75, 1.75), box(-2, -2, -1, -1), box(-1, -1, 7, 7), box(3.5, -1, 3.5, 7))
	step := 0.5
	if quickTier {
		step = 1.5 // -1, 0.5, 2, 3.5, 5: outside, on borders, inside and between objects
	}
	for x := -1.0; x <= 6; x += step {
		for y := -1.0; y <= 6; y += step {
			u.QPoints = append(u.QPoints, geom.Point{X: x, Y: y})
		}
	}
	u.QPoints = append(u.QPoints, FarPoints()...)
}

// NewPointsUniverse is an alphabet of value-typed points only, row by row on
// the {0..3} x {-1,0,1} grid: leaves of two or three of them are collinear, so
// that inner entries have degenerate (segment) boxes, for which the two
// distance bounds of the nearest-neighbour search coincide mathematically.
func NewPointsUniverse(n, min, max int, dups ...int) *Universe {
	u := &Universe{Min: min, Max: max, idx: map[geom.Geom]int{}, Dup: make([]bool, n)}
	for i := 0; i < n; i++ {
		g := geom.Point{X: float64(i % 4), Y: float64(i/4) - 1}
		u.Objs = append(u.Objs, g)
		u.idx[g] = i
	}
	for _, d := range dups {
		u.Dup[d] = true
	}
	for x0 := -1; x0 <= 4; x0++ {
		for x1 := x0; x1 <= 4; x1++ {
			for y0 := -2; y0 <= 2; y0++ {
				for y1 := y0; y1 <= 2; y1++ {
					if (x0+y0+x1+y1)%2 == 0 || x0 == x1 || y0 == y1 {
						u.Queries = append(u.Queries, box(float64(x0), float64(y0), float64(x1), float64(y1)))
					}
				}
			}
		}
	}
	// (an asymmetric grid: x in steps of 0.5, y in steps of 0.7 from -2, so that a
	// query point is hardly ever equidistant from a row and its neighbours)
	for x := -1.0; x <= 4; x += 0.5 {
		for y := -2.0; y <= 2.3; y += 0.7 {
			u.QPoints = append(u.QPoints, geom.Point{X: x, Y: y})
		}
	}
	u.QPoints = append(u.QPoints, FarPoints()...)
	return u
}

// NewGridUniverse is a third alphabet for large trees: the 36 points of the
// {0..5}^2 grid (every fifth one as a degenerate pointer-typed box, the others
// as value-typed points), enough objects for height-3 trees with a full root.
func NewGridUniverse(min, max int) *Universe {
	u := &Universe{Min: min, Max: max, idx: map[geom.Geom]int{}}
	for i := 0; i < 36; i++ {
		x, y := float64(i%6), float64(i/6)
		var g geom.Geom = geom.Point{X: x, Y: y}
		if i%5 == 2 {
			g = box(x, y, x, y)
		}
		u.Objs = append(u.Objs, g)
		u.idx[g] = i
	}
	u.Dup = make([]bool, len(u.Objs))
	spreadQueries(u)
	return u
}

// GridSeeds are insertion orders of the first 24..34 grid objects in five
// fixed orderings (row-major, column-major, two strides, reverse).
func GridSeeds() [][]int {
	orders := [][]int{}
	mk := func(f func(i int) int) []int {
		o := make([]int, 36)
		for i := range o {
			o[i] = f(i)
		}
		return o
	}
	orders = append(orders,
		mk(func(i int) int { return i }),
		mk(func(i int) int { return (i%6)*6 + i/6 }),
		mk(func(i int) int { return (i * 7) % 36 }),
		mk(func(i int) int { return (i * 11) % 36 }),
		mk(func(i int) int { return 35 - i }))
	var seeds [][]int
	for _, o := range orders {
		for n := 24; n <= 34; n++ {
			seeds = append(seeds, o[:n])
		}
	}
	return seeds
}

// NewScaledUniverse is the compact alphabet with every coordinate multiplied by
// 0.1, so that all distances are below 1 (where a squared distance is smaller
// than the distance itself).
func NewScaledUniverse(n, min, max int, dups ...int) *Universe {
	return NewScaledUniverseBy(0.1, n, min, max, dups...)
}

// NewScaledUniverseBy is the compact alphabet with every coordinate multiplied
// by f (objects, query boxes and query points alike): 0.1 gives distances below
// 1, 2^130 areas, distances and squared distances beyond the float32 range, 2^-34 gaps
// between objects far below a nanometre.
func NewScaledUniverseBy(f float64, n, min, max int, dups ...int) *Universe {
	base := NewUniverse(n, min, max, dups...)
	u := &Universe{Dup: base.Dup, Min: min, Max: max, idx: map[geom.Geom]int{}}
	sc := func(p geom.Point) geom.Point {
		if f == 0.1 {
			return geom.Point{X: p.X / 10, Y: p.Y / 10}
		}
		return geom.Point{X: p.X * f, Y: p.Y * f}
	}
	for i, o := range base.Objs {
		var g geom.Geom
		switch t := o.(type) {
		case geom.Point:
			g = sc(t)
		case *geom.Bounds:
			g = &geom.Bounds{Min: sc(t.Min), Max: sc(t.Max)}
		}
		u.Objs = append(u.Objs, g)
		u.idx[g] = i
	}
	for _, q := range base.Queries {
		u.Queries = append(u.Queries, &geom.Bounds{Min: sc(q.Min), Max: sc(q.Max)})
	}
	for _, p := range qpoints { // (the quick sub-grid in the quick tier)
		u.QPoints = append(u.QPoints, sc(p))
	}
	return u
}

// seal records the pristine boxes; called lazily.
func (u *Universe) seal() {
	if u.orig == nil {
		u.orig = make([]geom.Bounds, len(u.Objs))
		for i, o := range u.Objs {
			u.orig[i] = *o.Bounds()
		}
	}
}

// Orig is the box object i was created with.
func (u *Universe) Orig(i int) *geom.Bounds { u.seal(); return &u.orig[i] }

// origOf is the pristine box of a stored object (its current box for an
// object outside the alphabet).
func (u *Universe) origOf(o geom.Geom) geom.Bounds {
	if i, ok := u.idx[o]; ok {
		return *u.Orig(i)
	}
	return *o.Bounds()
}

// Modified names the first object whose box differs from its pristine copy.
func (u *Universe) Modified() string {
	u.seal()
	for i, o := range u.Objs {
		if *o.Bounds() != u.orig[i] {
			return fmt.Sprintf("o%d is now %v, was %v", i, *o.Bounds(), u.orig[i])
		}
	}
	return ""
}

// OpName renders an operation index.
func (u *Universe) OpName(op int) string {
	n := len(u.Objs)
	if op < n {
		return fmt.Sprintf("Insert(o%d)", op)
	}
	return fmt.Sprintf("Delete(o%d)", op-n)
}

// History renders a history.
func (u *Universe) History(seed []int, h []uint16) string {
	var s []string
	for _, i := range seed {
		s = append(s, fmt.Sprintf("Insert(o%d)", i))
	}
	for _, op := range h {
		s = append(s, u.OpName(int(op)))
	}
	return fmt.Sprintf("NewTree(%d,%d) ", u.Min, u.Max) + strings.Join(s, " ")
}

func try(f func()) (p string) {
	defer func() {
		if r := recover(); r != nil {
			p = fmt.Sprint(r)
		}
	}()
	f()
	return ""
}

// Key is the canonical serialisation: counters, the full node structure in
// entry order (entry order matters: split / chooseNode iterate in order), and
// the model multiset.
func (u *Universe) Key(o interface{}) []byte {
	s := o.(*St)
	var b bytes.Buffer
	root, h, sz := s.T.VerifSnapshot()
	binary.Write(&b, binary.LittleEndian, int32(h))
	binary.Write(&b, binary.LittleEndian, int32(sz))
	b.Write(s.Counts)
	var w func(n *rtree.VNode)
	w = func(n *rtree.VNode) {
		fl := byte(0)
		if n.Leaf {
			fl |= 1
		}
		if n.ParentOK {
			fl |= 2
		}
		b.WriteByte(fl)
		b.WriteByte(byte(n.Level))
		b.WriteByte(byte(len(n.Entries)))
		for _, e := range n.Entries {
			binary.Write(&b, binary.LittleEndian, [4]float64{e.BB.Min.X, e.BB.Min.Y, e.BB.Max.X, e.BB.Max.Y})
			binary.Write(&b, binary.LittleEndian, int16(e.Alias))
			if e.BBIsObj {
				b.WriteByte(1)
			} else {
				b.WriteByte(0)
			}
			if e.Child != nil {
				b.WriteByte(0xff)
				w(e.Child)
			} else {
				b.WriteByte(byte(u.idx[e.Obj]))
			}
		}
	}
	w(root)
	return b.Bytes()
}

// Explorer wires the universe into the BFS engine.
type Explorer struct {
	U     *Universe
	R     *report.Run
	Seeds [][]int
	// CheckState is the per-state oracle (C11 or C12).
	CheckState func(e *Explorer, s *bfs.State)
	// Drain restricts the transition relation to histories that empty the tree:
	// Delete is always enabled, Insert only while at most one object is stored
	// (so that every way of draining a seed tree completely, and the refill
	// after it, is explored).
	Drain bool
}

func (e *Explorer) viol(sym string, s *bfs.State, op int, detail string) {
	var seed []int
	if s != nil && e.Seeds != nil {
		seed = e.Seeds[s.Seed]
	}
	h := ""
	if s != nil {
		h = e.U.History(seed, s.Hist)
	}
	if op >= 0 {
		h += " " + e.U.OpName(op)
	}
	e.R.Violation(fmt.Sprintf("%s|branching=%d,%d", sym, e.U.Min, e.U.Max), map[string]interface{}{"history": h, "observed": detail})
}

// Viol lets the per-state oracles report.
func (e *Explorer) Viol(sym string, s *bfs.State, detail string) { e.viol(sym, s, -1, detail) }

// Apply is the transition function.
func (e *Explorer) Apply(s *bfs.State, op int) (interface{}, bool) {
	st := s.Obj.(*St)
	n := len(e.U.Objs)
	if op < n {
		c := st.Counts[op]
		if !(c == 0 || (c == 1 && e.U.Dup[op])) {
			return nil, false
		}
		if e.Drain {
			size := 0
			for _, x := range st.Counts {
				size += int(x)
			}
			if size > 1 {
				return nil, false
			}
		}
		t := st.T.VerifClone()
		if p := try(func() { t.Insert(e.U.Objs[op]) }); p != "" {
			e.viol("Insert-panic", s, op, p)
			return nil, true
		}
		cn := append([]uint8{}, st.Counts...)
		cn[op]++
		return &St{T: t, Counts: cn}, true
	}
	i := op - n
	t := st.T.VerifClone()
	var ok bool
	if p := try(func() { ok = t.Delete(e.U.Objs[i]) }); p != "" {
		e.viol("Delete-panic", s, op, p)
		return nil, true
	}
	if st.Counts[i] == 0 {
		if ok {
			e.viol("Delete-absent-returned-true", s, op, "")
			return nil, true
		}
		after := &St{T: t, Counts: st.Counts}
		if !bytes.Equal(e.U.Key(after), e.U.Key(st)) {
			e.viol("Delete-absent-changed-tree", s, op, "")
		}
		return nil, true
	}
	if !ok {
		e.viol("Delete-present-returned-false", s, op, "")
		return nil, true
	}
	cn := append([]uint8{}, st.Counts...)
	cn[i]--
	return &St{T: t, Counts: cn}, true
}

// Run explores to maxDepth from the seeds (nil seeds = the empty tree).
func (e *Explorer) Run(maxDepth int) bfs.Stats {
	e.U.seal()
	var seeds []interface{}
	if e.Seeds == nil {
		e.Seeds = [][]int{{}}
	}
	for _, order := range e.Seeds {
		t := rtree.NewTree(e.U.Min, e.U.Max)
		cn := make([]uint8, len(e.U.Objs))
		for _, i := range order {
			if p := try(func() { t.Insert(e.U.Objs[i]) }); p != "" {
				e.viol("Insert-panic", nil, -1, fmt.Sprintf("seed %v: %s", order, p))
			}
			cn[i]++
		}
		seeds = append(seeds, &St{T: t, Counts: cn})
	}
	sys := bfs.System{
		NumOps: 2 * len(e.U.Objs),
		Apply:  e.Apply,
		Key:    e.U.Key,
		Check:  func(s *bfs.State) { e.CheckState(e, s) },
	}
	return bfs.Run(sys, seeds, maxDepth, func() bool { return e.R.Expired() || e.R.NViolationSigs() > 0 })
}

// ---- C11 oracle --------------------------------------------------------------

// Height returns the number of levels of the snapshot and whether all leaves
// are at the same depth.
func structure(u *Universe, root *rtree.VNode, max int) (leafDepths map[int]bool, problems []string) {
	leafDepths = map[int]bool{}
	var w func(n *rtree.VNode, depth int)
	w = func(n *rtree.VNode, depth int) {
		if len(n.Entries) > max {
			problems = append(problems, fmt.Sprintf("fanout>max: node with %d entries", len(n.Entries)))
		}
		if !n.ParentOK {
			problems = append(problems, "latent: parent link of a non-root node does not point to the node holding its entry")
		}
		if n.Leaf {
			leafDepths[depth] = true
		}
		for _, en := range n.Entries {
			if n.Leaf != (en.Child == nil) {
				problems = append(problems, "leaf-flag: leaf holds a child entry or inner node holds an object")
				if en.Child == nil {
					continue
				}
			}
			if !en.HasBB {
				problems = append(problems, "envelope: entry without box")
				continue
			}
			if en.Child != nil {
				env, any := envelope(u, en.Child)
				if !any || env != en.BB {
					problems = append(problems, fmt.Sprintf("envelope: entry box %v but subtree envelope %v", en.BB, env))
				}
				if en.Child.Level != n.Level-1 {
					problems = append(problems, fmt.Sprintf("latent: level %d child under level %d node", en.Child.Level, n.Level))
				}
				w(en.Child, depth+1)
			} else {
				if ob := u.origOf(en.Obj); ob != en.BB {
					problems = append(problems, fmt.Sprintf("envelope: leaf entry box %v but object box %v", en.BB, ob))
				}
			}
		}
	}
	w(root, 1)
	return
}

func envelope(u *Universe, n *rtree.VNode) (geom.Bounds, bool) {
	b := geom.Bounds{Min: geom.Point{X: math.Inf(1), Y: math.Inf(1)}, Max: geom.Point{X: math.Inf(-1), Y: math.Inf(-1)}}
	any := false
	for _, e := range n.Entries {
		var eb geom.Bounds
		if e.Child != nil {
			var ok bool
			eb, ok = envelope(u, e.Child)
			if !ok {
				continue
			}
		} else {
			eb = u.origOf(e.Obj)
		}
		any = true
		b.Min.X = math.Min(b.Min.X, eb.Min.X)
		b.Min.Y = math.Min(b.Min.Y, eb.Min.Y)
		b.Max.X = math.Max(b.Max.X, eb.Max.X)
		b.Max.Y = math.Max(b.Max.Y, eb.Max.Y)
	}
	return b, any
}

// Queries is the list of all closed query boxes over {0..3}² incl. degenerate.
func Queries() []*geom.Bounds {
	var q []*geom.Bounds
	for x0 := 0; x0 < 4; x0++ {
		for x1 := x0; x1 < 4; x1++ {
			for y0 := 0; y0 < 4; y0++ {
				for y1 := y0; y1 < 4; y1++ {
					q = append(q, box(float64(x0), float64(y0), float64(x1), float64(y1)))
				}
			}
		}
	}
	// queries off the lattice: strictly between objects, and outside everything
	q = append(q, box(1.25, 1.25, 1.75, 1.75), box(-2, -2, -1, -1), box(-1, -1, 5, 5), box(1.5, -1, 1.5, 5))
	return q
}

var queries = Queries()

// CheckC11 is the per-state oracle of property C11.
func CheckC11(e *Explorer, s *bfs.State) {
	st := s.Obj.(*St)
	u := e.U
	want := 0
	for _, c := range st.Counts {
		want += int(c)
	}
	root, _, _ := st.T.VerifSnapshot()
	if st.T.Size() != want {
		e.Viol("Size-wrong", s, fmt.Sprintf("Size()=%d want %d", st.T.Size(), want))
	}
	if m := u.Modified(); m != "" {
		e.Viol("stored-object-modified", s, m)
	}
	depths, problems := structure(u, root, u.Max)
	for _, p := range problems {
		e.Viol("structure:"+strings.SplitN(p, ":", 2)[0], s, p)
	}
	if len(depths) != 1 {
		e.Viol("structure:leaves-at-different-depths", s, fmt.Sprint(depths))
	} else {
		for d := range depths {
			if st.T.Depth() != d {
				e.Viol("Depth-wrong", s, fmt.Sprintf("Depth()=%d but leaves are at depth %d", st.T.Depth(), d))
			}
			if d >= 2 {
				e.R.AddNontrivial(1)
			}
			if d >= 3 {
				e.R.Inc("states_height_ge3", 1)
				if len(root.Entries) == u.Max {
					e.R.Inc("states_height_ge3_full_root", 1)
				}
			}
		}
	}
	got := make([]int, len(u.Objs))
	var keptRes, keptCopy []geom.Geom // the result of the widest query, looked at again after all others
	defer func() {
		for i := range keptRes {
			if i >= len(keptCopy) || keptRes[i] != keptCopy[i] {
				e.Viol("SearchIntersect-result-changed-by-later-queries", s, fmt.Sprintf("element %d", i))
				return
			}
		}
	}()
	for qi, q := range u.Queries {
		for i := range got {
			got[i] = 0
		}
		var res []geom.Geom
		if p := try(func() { res = st.T.SearchIntersect(q) }); p != "" {
			e.Viol("SearchIntersect-panic", s, p)
			return
		}
		if qi == len(u.Queries)-2 {
			keptRes, keptCopy = res, append([]geom.Geom{}, res...)
		}
		bad := ""
		for _, o := range res {
			i, ok := u.idx[o]
			if !ok {
				bad = fmt.Sprintf("returned an object that was never stored: %v", o)
				break
			}
			got[i]++
		}
		if bad == "" {
			for i := range u.Objs {
				w := 0
				ob := u.Orig(i)
				if ob.Min.X <= q.Max.X && q.Min.X <= ob.Max.X && ob.Min.Y <= q.Max.Y && q.Min.Y <= ob.Max.Y {
					w = int(st.Counts[i])
				}
				if got[i] != w {
					bad = fmt.Sprintf("query %v: object o%d returned %d times, want %d", *q, i, got[i], w)
					break
				}
			}
		}
		if bad != "" {
			e.Viol("SearchIntersect-mismatch", s, bad)
			return
		}
	}
}

// ---- C12 oracle --------------------------------------------------------------

// QueryPoints is the half-integer grid over {0..3}² extended by one cell.
func QueryPoints() []geom.Point {
	var o []geom.Point
	for x := -1.0; x <= 4; x += 0.5 {
		for y := -1.0; y <= 4; y += 0.5 {
			o = append(o, geom.Point{X: x, Y: y})
		}
	}
	return append(o, FarPoints()...)
}

// FarPoints are twelve query points far outside the alphabet with coordinates
// that are not short binary fractions (a low-discrepancy sequence): the
// distance bounds of the search are then rounded, not exact.
func FarPoints() []geom.Point {
	var o []geom.Point
	frac := func(v float64) float64 { return v - math.Floor(v) }
	for k := 0; k < 12; k++ {
		o = append(o, geom.Point{X: 600*frac(float64(k)*0.6180339887498949+0.1234) - 300, Y: 800*frac(float64(k)*0.7548776662466927+0.4321) - 400})
	}
	// a million extents away, beside each side of the contents and diagonally:
	// from there the nearest object is the one nearest that side, whatever lies
	// closest to the foot of the perpendicular
	o = append(o, geom.Point{X: 1000000.5, Y: 0.3}, geom.Point{X: -1e6, Y: 1.7}, geom.Point{X: 0.7, Y: 1e6}, geom.Point{X: 2.2, Y: -1e7}, geom.Point{X: 1e6, Y: 1000000.37})
	return o
}

var qpoints = QueryPoints()

// quickTier coarsens the query grids of the spread and points alphabets too.
var quickTier bool

// SetQuickPoints restricts the query points to a 7x7 sub-grid that still has
// points inside, outside, on box borders and between objects.
func SetQuickPoints() {
	quickTier = true
	qpoints = nil
	for _, x := range []float64{-1, 0, 0.5, 1.5, 2, 3, 4} {
		for _, y := range []float64{-1, 0, 0.5, 1.5, 2, 3, 4} {
			qpoints = append(qpoints, geom.Point{X: x, Y: y})
		}
	}
	qpoints = append(qpoints, FarPoints()...)
}

// NumQueryPoints reports the size of the compact alphabet's query-point set.
func NumQueryPoints() int { return len(qpoints) }

func boxDist(p geom.Point, b *geom.Bounds) float64 {
	dx := math.Max(math.Max(b.Min.X-p.X, 0), p.X-b.Max.X)
	dy := math.Max(math.Max(b.Min.Y-p.Y, 0), p.Y-b.Max.Y)
	return math.Sqrt(dx*dx + dy*dy)
}

// CheckC12 is the per-state oracle of property C12.
func CheckC12(e *Explorer, s *bfs.State) {
	st := s.Obj.(*St)
	u := e.U
	size := 0
	for _, c := range st.Counts {
		size += int(c)
	}
	if size == 0 {
		return
	}
	_, h, _ := st.T.VerifSnapshot()
	if h >= 2 {
		e.R.AddNontrivial(1)
	}
	if m := u.Modified(); m != "" {
		e.Viol("stored-object-modified", s, m)
	}
	var keptRes, keptCopy []geom.Geom // the first full-size answer, looked at again after all other queries
	defer func() {
		for i := range keptRes {
			if keptRes[i] != keptCopy[i] {
				e.Viol("NearestNeighbors-result-changed-by-later-queries", s, fmt.Sprintf("slot %d", i))
				return
			}
		}
	}()
	all := make([]float64, 0, size)
	for _, p := range u.QPoints {
		all = all[:0]
		for i := range u.Objs {
			for c := 0; c < int(st.Counts[i]); c++ {
				all = append(all, boxDist(p, u.Orig(i)))
			}
		}
		sort.Float64s(all)
		var nn geom.Geom
		if pn := try(func() { nn = st.T.NearestNeighbor(p) }); pn != "" {
			e.Viol("NearestNeighbor-panic", s, fmt.Sprintf("p=%v: %s", p, pn))
			return
		}
		if i, ok := u.idx[nn]; !ok || st.Counts[i] == 0 {
			e.Viol("NearestNeighbor-not-stored", s, fmt.Sprintf("p=%v returned %v", p, nn))
			return
		} else if d := boxDist(p, u.Orig(i)); math.Abs(d-all[0]) > 1e-12 {
			e.Viol("NearestNeighbor-not-nearest", s, fmt.Sprintf("p=%v returned o%d at distance %g, minimum is %g", p, i, d, all[0]))
			return
		}
		for k := 1; k <= size+1; k++ {
			var res []geom.Geom
			if pn := try(func() { res = st.T.NearestNeighbors(k, p) }); pn != "" {
				e.Viol("NearestNeighbors-panic", s, fmt.Sprintf("k=%d p=%v: %s", k, p, pn))
				return
			}
			if keptRes == nil && k == size {
				keptRes, keptCopy = res, append([]geom.Geom{}, res...)
			}
			e.R.AddEvals(1)
			if bad := judgeKNN(u, st, res, k, size, p, all); bad != "" {
				kind := "k>1"
				if k == 1 {
					kind = "k=1"
				}
				e.Viol("NearestNeighbors-wrong|"+kind, s, fmt.Sprintf("k=%d p=%v: %s", k, p, bad))
				return
			}
		}
	}
}

func judgeKNN(u *Universe, st *St, res []geom.Geom, k, size int, p geom.Point, all []float64) string {
	if len(res) != k {
		return fmt.Sprintf("returned %d slots, want %d", len(res), k)
	}
	m := k
	if size < m {
		m = size
	}
	used := make([]int, len(u.Objs))
	prev := -1.0
	for j := 0; j < k; j++ {
		if j >= m {
			if res[j] != nil {
				return fmt.Sprintf("slot %d should be nil", j)
			}
			continue
		}
		if res[j] == nil {
			return fmt.Sprintf("slot %d is nil but %d objects are stored", j, size)
		}
		i, ok := u.idx[res[j]]
		if !ok {
			return fmt.Sprintf("slot %d holds an object never stored", j)
		}
		used[i]++
		if used[i] > int(st.Counts[i]) {
			return fmt.Sprintf("object o%d returned more often than stored", i)
		}
		d := boxDist(p, u.Orig(i))
		if d < prev {
			return fmt.Sprintf("distances not non-decreasing at slot %d", j)
		}
		prev = d
		if math.Abs(d-all[j]) > 1e-12 {
			return fmt.Sprintf("slot %d at distance %g, the %d-th smallest distance is %g", j, d, j+1, all[j])
		}
	}
	return ""
}

// ---- operation sequences with queries as operations ---------------------------

// SeqStats of a sequence search.
type SeqStats struct {
	Nodes, Queries int64
}

// Sequences explores every operation sequence of length <= depth over the
// alphabet Insert(o), Delete(o) and the query operations of the property
// (nn=false: SearchIntersect for nq fixed boxes; nn=true: NearestNeighbor(p)
// and NearestNeighbors(2,p) for nq fixed points) as a plain tree search: no
// two histories are merged, and a query is an operation like any other, so
// that state the canonical key cannot see (a cache filled by a query, an
// aliased box) is carried along exactly as a caller would carry it. Every
// query result is compared with the brute-force answer for the model multiset
// at that point of the history.
func (e *Explorer) Sequences(depth int, nn bool) SeqStats {
	u := e.U
	u.seal()
	n := len(u.Objs)
	qb := []*geom.Bounds{box(0, 0, 1, 1), box(2.5, 2.5, 4, 4), box(1, 1, 1, 1)}
	qp := []geom.Point{{X: 0.5, Y: 0.5}, {X: 3, Y: 3.5}}
	nq := len(qb)
	if nn {
		nq = 2 * len(qp)
	}
	var stats SeqStats
	name := func(op int) string {
		switch {
		case op < 2*n:
			return u.OpName(op)
		case !nn:
			return fmt.Sprintf("SearchIntersect(%v)", *qb[op-2*n])
		case (op-2*n)%2 == 0:
			return fmt.Sprintf("NearestNeighbor(%v)", qp[(op-2*n)/2])
		}
		return fmt.Sprintf("NearestNeighbors(2,%v)", qp[(op-2*n)/2])
	}
	viol := func(sym string, hist []int, detail string) {
		h := []string{fmt.Sprintf("NewTree(%d,%d)", u.Min, u.Max)}
		for _, op := range hist {
			h = append(h, name(op))
		}
		e.R.Violation(fmt.Sprintf("sequence|%s|branching=%d,%d", sym, u.Min, u.Max), map[string]interface{}{"history": strings.Join(h, " "), "observed": detail})
	}
	// step applies op to a copy of st; ok=false when op is not enabled.
	step := func(st *St, hist []int, op int) (*St, bool) {
		t := st.T.VerifClone()
		cn := st.Counts
		switch {
		case op < n:
			c := st.Counts[op]
			if !(c == 0 || (c == 1 && u.Dup[op])) {
				return nil, false
			}
			if p := try(func() { t.Insert(u.Objs[op]) }); p != "" {
				viol("Insert-panic", hist, p)
				return nil, false
			}
			cn = append([]uint8{}, st.Counts...)
			cn[op]++
		case op < 2*n:
			i := op - n
			var ok bool
			if p := try(func() { ok = t.Delete(u.Objs[i]) }); p != "" {
				viol("Delete-panic", hist, p)
				return nil, false
			}
			if ok != (st.Counts[i] > 0) {
				viol("Delete-result", hist, fmt.Sprintf("Delete(o%d) returned %v with %d copies stored", i, ok, st.Counts[i]))
				return nil, false
			}
			if ok {
				cn = append([]uint8{}, st.Counts...)
				cn[i]--
			}
		case !nn:
			q := qb[op-2*n]
			var res []geom.Geom
			if p := try(func() { res = t.SearchIntersect(q) }); p != "" {
				viol("SearchIntersect-panic", hist, p)
				return nil, false
			}
			atomic.AddInt64(&stats.Queries, 1)
			got := make([]int, n)
			for _, o := range res {
				i, ok := u.idx[o]
				if !ok {
					viol("SearchIntersect-mismatch", hist, fmt.Sprintf("returned an object never stored: %v", o))
					return nil, false
				}
				got[i]++
			}
			for i := range u.Objs {
				w := 0
				ob := u.Orig(i)
				if ob.Min.X <= q.Max.X && q.Min.X <= ob.Max.X && ob.Min.Y <= q.Max.Y && q.Min.Y <= ob.Max.Y {
					w = int(st.Counts[i])
				}
				if got[i] != w {
					viol("SearchIntersect-mismatch", hist, fmt.Sprintf("query %v: object o%d returned %d times, want %d", *q, i, got[i], w))
					return nil, false
				}
			}
		default:
			p := qp[(op-2*n)/2]
			size := 0
			var all []float64
			for i := range u.Objs {
				for c := 0; c < int(st.Counts[i]); c++ {
					all = append(all, boxDist(p, u.Orig(i)))
					size++
				}
			}
			if size == 0 {
				return nil, false // the property speaks about non-empty trees
			}
			sort.Float64s(all)
			atomic.AddInt64(&stats.Queries, 1)
			if (op-2*n)%2 == 0 {
				var r geom.Geom
				if pn := try(func() { r = t.NearestNeighbor(p) }); pn != "" {
					viol("NearestNeighbor-panic", hist, pn)
					return nil, false
				}
				if i, ok := u.idx[r]; !ok || st.Counts[i] == 0 {
					viol("NearestNeighbor-not-stored", hist, fmt.Sprintf("p=%v returned %v", p, r))
					return nil, false
				} else if d := boxDist(p, u.Orig(i)); math.Abs(d-all[0]) > 1e-12 {
					viol("NearestNeighbor-not-nearest", hist, fmt.Sprintf("p=%v returned o%d at distance %g, minimum is %g", p, i, d, all[0]))
					return nil, false
				}
			} else {
				var res []geom.Geom
				if pn := try(func() { res = t.NearestNeighbors(2, p) }); pn != "" {
					viol("NearestNeighbors-panic", hist, pn)
					return nil, false
				}
				if bad := judgeKNN(u, st, res, 2, size, p, all); bad != "" {
					viol("NearestNeighbors-wrong", hist, fmt.Sprintf("k=2 p=%v: %s", p, bad))
					return nil, false
				}
			}
		}
		return &St{T: t, Counts: cn}, true
	}
	nops := 2*n + nq
	var rec func(st *St, hist []int, d int)
	rec = func(st *St, hist []int, d int) {
		if d == 0 || e.R.NViolationSigs() > 0 {
			return
		}
		for op := 0; op < nops; op++ {
			h := append(hist[:len(hist):len(hist)], op)
			nx, ok := step(st, h, op)
			if !ok {
				continue
			}
			atomic.AddInt64(&stats.Nodes, 1)
			rec(nx, h, d-1)
		}
	}
	root := &St{T: rtree.NewTree(u.Min, u.Max), Counts: make([]uint8, n)}
	// parallel over the prefixes of length 2
	type pre struct {
		st   *St
		hist []int
	}
	var pres []pre
	for a := 0; a < nops; a++ {
		s1, ok := step(root, []int{a}, a)
		if !ok {
			continue
		}
		stats.Nodes++
		if depth < 2 {
			continue
		}
		for b := 0; b < nops; b++ {
			s2, ok := step(s1, []int{a, b}, b)
			if !ok {
				continue
			}
			stats.Nodes++
			pres = append(pres, pre{s2, []int{a, b}})
		}
	}
	enum.Parallel(len(pres), e.R.Expired, func(i int) { rec(pres[i].st, pres[i].hist, depth-2) })
	if m := u.Modified(); m != "" {
		viol("stored-object-modified", nil, m)
	}
	return stats
}

// ---- four-phase histories -----------------------------------------------------

// PhaseStats counts what Phases covered.
type PhaseStats struct {
	Histories, States, Distinct, Ops int64
}

// Phases explores every history of the shape
//
//	insert all objects in order a; delete in order b down to n2 objects;
//	insert the missing objects in order c; delete in order d down to nothing
//
// for all a, b, c, d in orders and all n2 in 0..n2max, on the real tree (shared
// prefixes are run once, branches continue on clones). The per-state oracle runs
// in every state whose canonical key has not been seen before. These histories
// grow a tree to its full height, shrink it until the root chain collapses,
// regrow it through another root split and shrink it again: the only way to
// reach states whose shape depends on bookkeeping done two phases earlier.
func (e *Explorer) Phases(orders [][]int, n2max int) PhaseStats {
	u := e.U
	u.seal()
	n := len(u.Objs)
	if e.Seeds == nil {
		e.Seeds = [][]int{{}}
	}
	var stats PhaseStats
	var mu sync.Mutex
	seen := map[string]bool{}
	stop := func() bool { return e.R.Expired() || e.R.NViolationSigs() > 0 }
	visit := func(s *bfs.State) {
		atomic.AddInt64(&stats.States, 1)
		k := string(u.Key(s.Obj))
		mu.Lock()
		dup := seen[k]
		seen[k] = true
		mu.Unlock()
		if !dup {
			atomic.AddInt64(&stats.Distinct, 1)
			e.CheckState(e, s)
		}
	}
	apply := func(s *bfs.State, op int) *bfs.State {
		atomic.AddInt64(&stats.Ops, 1)
		obj, ok := e.Apply(s, op)
		if !ok || obj == nil {
			return nil
		}
		t := &bfs.State{Obj: obj, Hist: append(append([]uint16{}, s.Hist...), uint16(op))}
		visit(t)
		return t
	}
	type job struct{ a, b int }
	var jobs []job
	for a := range orders {
		for b := range orders {
			jobs = append(jobs, job{a, b})
		}
	}
	enum.Parallel(len(jobs), stop, func(ji int) {
		oa, ob := orders[jobs[ji].a], orders[jobs[ji].b]
		s := &bfs.State{Obj: &St{T: rtree.NewTree(u.Min, u.Max), Counts: make([]uint8, n)}}
		for _, i := range oa {
			if s = apply(s, i); s == nil {
				return
			}
		}
		size := n
		for _, i := range ob {
			if s = apply(s, n+i); s == nil || stop() {
				return
			}
			size--
			if size > n2max {
				continue
			}
			for _, oc := range orders {
				s3 := s
				for _, i := range oc {
					if s3.Obj.(*St).Counts[i] == 0 {
						if s3 = apply(s3, i); s3 == nil {
							break
						}
					}
				}
				if s3 == nil {
					continue
				}
				for _, od := range orders {
					atomic.AddInt64(&stats.Histories, 1)
					s4 := s3
					for _, i := range od {
						if s4 = apply(s4, n+i); s4 == nil || stop() {
							break
						}
					}
				}
			}
		}
	})
	return stats
}
