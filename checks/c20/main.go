// C20 — a CRS means the same whether written as PROJ.4, as OGC WKT or by
// registered name. Engine E1 over abstract CRS records rendered in both
// notations x lattice positions, plus all ordered pairs of a pool of references
// differing in one field each for the Equal <=> nil-transformer clause.
package main

import (
	"fmt"
	"math"
	"os"
	"path/filepath"
	"strings"

	"github.com/ctessum/geom/encoding/shp"
	"github.com/ctessum/geom/proj"
	gshp "github.com/jonas-p/go-shp"

	"verif/mc/report"
)

type record struct {
	Proj             string // merc, lcc, aea, eqdc, tmerc, geog
	Lat1, Lat2, Lat0 float64
	Lon0, K0         float64
	X0m, Y0m         float64 // false origin in metres
	A, Rf            float64
	Towgs            []float64
	Unit             string // metre, foot, us-ft, yard, kilometre
	Spelling         int    // WKT parameter-name variant
	UnitFirst        bool   // WKT clause order: UNIT directly behind GEOGCS instead of last
	P4Reversed       bool   // PROJ.4 parameters written in the opposite order
	ParamsFirst      bool   // WKT clause order: the PARAMETER clauses before PROJECTION
	WktStyle         int    // white space in the WKT text: 0 none, 1 a blank after every comma, 2 a line break and indentation after every comma
	SphName          string // WKT spheroid name ("" = a neutral one); the numbers behind it are the record's own
}

var unitToMeter = map[string]float64{"metre": 1, "foot": 0.3048, "us-ft": 1200.0 / 3937.0, "yard": 0.9144, "kilometre": 1000}

func g(v float64) string { return fmt.Sprintf("%.17g", v) }

func (r record) proj4() string {
	var b strings.Builder
	switch r.Proj {
	case "geog":
		b.WriteString("+proj=longlat")
	case "merc":
		fmt.Fprintf(&b, "+proj=merc +lon_0=%s +k_0=%s", g(r.Lon0), g(r.K0))
	case "lcc", "aea", "eqdc":
		fmt.Fprintf(&b, "+proj=%s +lat_1=%s +lat_2=%s +lat_0=%s +lon_0=%s", r.Proj, g(r.Lat1), g(r.Lat2), g(r.Lat0), g(r.Lon0))
		if r.K0 != 0 {
			// (a scale factor written out for a conic, as some .prj writers do)
			fmt.Fprintf(&b, " +k_0=%s", g(r.K0))
		}
	case "tmerc":
		fmt.Fprintf(&b, "+proj=tmerc +lat_0=%s +lon_0=%s +k=%s", g(r.Lat0), g(r.Lon0), g(r.K0))
	}
	if r.Proj != "geog" {
		fmt.Fprintf(&b, " +x_0=%s +y_0=%s", g(r.X0m), g(r.Y0m))
	}
	fmt.Fprintf(&b, " +a=%s +rf=%s", g(r.A), g(r.Rf))
	if len(r.Towgs) > 0 {
		var s []string
		for _, v := range r.Towgs {
			s = append(s, g(v))
		}
		b.WriteString(" +towgs84=" + strings.Join(s, ","))
	}
	if r.Proj != "geog" {
		switch r.Unit {
		case "foot":
			b.WriteString(" +units=ft")
		case "us-ft":
			b.WriteString(" +units=us-ft")
		case "yard", "kilometre":
			// a unit PROJ.4 has no name for here: given by its length
			b.WriteString(" +to_meter=" + g(unitToMeter[r.Unit]))
		}
	}
	b.WriteString(" +no_defs")
	if r.P4Reversed {
		// the same parameters in the opposite order (a PROJ.4 string is a set of
		// key=value pairs: +lat_2 may come before +lat_1, +units before +x_0, ...)
		f := strings.Fields(b.String())
		for i, j := 0, len(f)-1; i < j; i, j = i+1, j-1 {
			f[i], f[j] = f[j], f[i]
		}
		return strings.Join(f, " ")
	}
	return b.String()
}

func (r record) geogWKT() string {
	tw := ""
	if len(r.Towgs) > 0 {
		var s []string
		for _, v := range r.Towgs {
			s = append(s, g(v))
		}
		tw = ",TOWGS84[" + strings.Join(s, ",") + "]"
	}
	sph := r.SphName
	if sph == "" {
		sph = "Neutral spheroid"
	}
	return fmt.Sprintf(`GEOGCS["Neutral geographic",DATUM["Neutral_Datum_One",SPHEROID["%s",%s,%s]%s],PRIMEM["Greenwich",0],UNIT["degree",0.0174532925199433]]`, sph, g(r.A), g(r.Rf), tw)
}

func (r record) wkt() string {
	w := r.wktCompact()
	switch r.WktStyle {
	case 1:
		w = strings.ReplaceAll(w, ",", ", ")
	case 2:
		w = strings.ReplaceAll(w, ",", ",\n    ")
	}
	return w
}

func (r record) wktCompact() string {
	if r.Proj == "geog" {
		return r.geogWKT()
	}
	u := unitToMeter[r.Unit]
	uname := map[string]string{"metre": "metre", "foot": "foot", "us-ft": "US survey foot", "yard": "yard", "kilometre": "kilometre"}[r.Unit]
	par := func(n string, v float64) string { return fmt.Sprintf(`PARAMETER["%s",%s]`, n, g(v)) }
	var ps []string
	name := ""
	latO, lonO := "latitude_of_origin", "central_meridian"
	if r.Spelling == 1 {
		latO, lonO = "latitude_of_center", "longitude_of_center"
	}
	switch r.Proj {
	case "merc":
		name = "Mercator_1SP"
		ps = append(ps, par("central_meridian", r.Lon0), par("scale_factor", r.K0))
	case "lcc":
		name = "Lambert_Conformal_Conic_2SP"
		ps = append(ps, par("standard_parallel_1", r.Lat1), par("standard_parallel_2", r.Lat2), par("latitude_of_origin", r.Lat0), par("central_meridian", r.Lon0))
	case "aea":
		name = "Albers_Conic_Equal_Area"
		ps = append(ps, par("standard_parallel_1", r.Lat1), par("standard_parallel_2", r.Lat2), par(latO, r.Lat0), par(lonO, r.Lon0))
	case "eqdc":
		name = "Equidistant_Conic"
		ps = append(ps, par("standard_parallel_1", r.Lat1), par("standard_parallel_2", r.Lat2), par(latO, r.Lat0), par(lonO, r.Lon0))
	case "tmerc":
		name = "Transverse_Mercator"
		ps = append(ps, par("latitude_of_origin", r.Lat0), par("central_meridian", r.Lon0), par("scale_factor", r.K0))
	}
	if r.K0 != 0 && (r.Proj == "aea" || r.Proj == "eqdc" || r.Proj == "lcc") {
		ps = append(ps, par("scale_factor", r.K0))
	}
	ps = append(ps, par("false_easting", r.X0m/u), par("false_northing", r.Y0m/u))
	if r.ParamsFirst {
		return fmt.Sprintf(`PROJCS["Neutral projected",%s,%s,PROJECTION["%s"],UNIT["%s",%s]]`, r.geogWKT(), strings.Join(ps, ","), name, uname, g(u))
	}
	if r.UnitFirst {
		return fmt.Sprintf(`PROJCS["Neutral projected",%s,UNIT["%s",%s],PROJECTION["%s"],%s]`, r.geogWKT(), uname, g(u), name, strings.Join(ps, ","))
	}
	return fmt.Sprintf(`PROJCS["Neutral projected",%s,PROJECTION["%s"],%s,UNIT["%s",%s]]`, r.geogWKT(), name, strings.Join(ps, ","), uname, g(u))
}

func (r record) geog() record {
	q := r
	q.Proj = "geog"
	return q
}

func positions(r record) [][2]float64 {
	var pts [][2]float64
	lats := []float64{5, 33, 52, 71}
	if r.Lat1 < 0 {
		lats = []float64{-5, -33, -52, -71}
	}
	if r.Proj == "merc" || r.Proj == "tmerc" {
		lats = []float64{-60, -5, 0, 33, 71}
	}
	dls := []float64{-40, -3, 0, 12}
	if r.Proj == "tmerc" {
		dls = []float64{-3.5, -1, 0, 2.5}
	}
	for _, dl := range dls {
		for _, lat := range lats {
			pts = append(pts, [2]float64{r.Lon0 + dl, lat})
		}
	}
	return pts
}

func try(f func()) (p string) {
	defer func() {
		if rr := recover(); rr != nil {
			p = fmt.Sprint(rr)
		}
	}()
	f()
	return ""
}

func transformer(from, to string) (proj.Transformer, string) {
	var t proj.Transformer
	var err error
	if p := try(func() {
		a, e := proj.Parse(from)
		if e != nil {
			err = fmt.Errorf("parse %q: %v", from, e)
			return
		}
		b, e := proj.Parse(to)
		if e != nil {
			err = fmt.Errorf("parse %q: %v", to, e)
			return
		}
		t, err = a.NewTransform(b)
	}); p != "" {
		return nil, "panic: " + p
	}
	if err != nil {
		return nil, err.Error()
	}
	return t, ""
}

func apply(t proj.Transformer, p [2]float64) ([2]float64, string) {
	if t == nil {
		return p, ""
	}
	var x, y float64
	var err error
	if pn := try(func() { x, y, err = t(p[0], p[1]) }); pn != "" {
		return [2]float64{}, "panic: " + pn
	}
	if err != nil {
		return [2]float64{}, err.Error()
	}
	return [2]float64{x, y}, ""
}

func main() {
	tier := "quick"
	if len(os.Args) > 1 {
		tier = os.Args[1]
	}
	if tier == "replay" {
		b, _ := os.ReadFile(os.Args[2])
		fmt.Printf("%s\nThe case holds the PROJ.4 and WKT texts (or the two references of a pair) and the position.\n", b)
		return
	}
	rep := report.New("C20", tier, "exploration")
	rep.Rule = "E1 lattice: abstract CRS records (Mercator_1SP, Lambert_Conformal_Conic_2SP, Albers, Equidistant_Conic in both parameter spellings, Transverse_Mercator, plain GEOGCS) x parameter sets (northern / southern cones, 1SP) x 4 (6) spheroids by (a, 1/f) x TOWGS84 {none, 3 terms, 7 terms, 7 terms with zero translations, 7 terms with zero rotations} x WKT clause order {UNIT last, UNIT first} / PROJ.4 parameter order {as usual, reversed}; latitudes of origin incl. 0 and +-90 x linear unit {metre, foot, US survey foot}, each rendered by two independent renderers as PROJ.4 and as OGC WKT 1 with neutral names; transformers from the own geographic base (and from WGS84 long/lat when a TOWGS84 is stated) must agree within 1 micrometre at 16-20 positions; registered names and aliases against their definitions; every ordered pair of a pool of 48 references differing in one field each (some by a few 1e-11 only) (incl. WKT texts sharing their names): parsing twice gives Equal, NewTransform is nil exactly for Equal references, and a nil transformer is returned only for references that transform identically; a .prj read through (*shp.Decoder).SR equals Parse of its text. Non-trivial = records with a non-metre unit, a TOWGS84 clause or the alternative parameter spelling."
	var n, nontrivial int64
	spheroids := [][2]float64{{6378137, 298.257223563}, {6377397.155, 299.1528128}, {6378206.4, 294.9786982}, {6378388, 297}}
	spheroids = append(spheroids, [2]float64{6377563.396, 299.3249646}, [2]float64{6378160, 298.25})
	if tier == "thorough" {
		spheroids = append(spheroids, [2]float64{6377276.345, 300.8017}, [2]float64{6378249.145, 293.465}, [2]float64{6376523, 308.64})
	}
	towgs := [][]float64{nil, {-87, -98, -121}, {577.326, 90.129, 463.919, 5.137, 1.474, 5.297, 2.4232}, {0, 0, 0, 0.35, -0.12, 1.1, 2.5}, {-87, -98, -121, 0, 0, 0, 5.2}}
	var recs []record
	base := []record{
		{Proj: "merc", Lon0: -75.5, K0: 0.9996, X0m: 500000, Y0m: -2000000},
		{Proj: "merc", Lon0: 0, K0: 1, X0m: 0, Y0m: 0},
		{Proj: "lcc", Lat1: 33, Lat2: 45, Lat0: 38, Lon0: -96, X0m: 609601.2192024384, Y0m: 0},
		{Proj: "lcc", Lat1: -20, Lat2: -50, Lat0: -30, Lon0: 25, X0m: 1000000, Y0m: -500000},
		{Proj: "aea", Lat1: 50, Lat2: 58.5, Lat0: 45, Lon0: -126, X0m: 1000000, Y0m: 0},
		{Proj: "aea", Lat1: 50, Lat2: 58.5, Lat0: 45, Lon0: -126, X0m: 1000000, Y0m: 0, Spelling: 1},
		{Proj: "aea", Lat1: -18, Lat2: -36, Lat0: 0, Lon0: 132, X0m: 0, Y0m: 0},
		// ... with a scale factor of 1 written out, in both parameter spellings
		{Proj: "aea", Lat1: 50, Lat2: 58.5, Lat0: 45, Lon0: -126, X0m: 1000000, Y0m: 0, Spelling: 1, K0: 1},
		{Proj: "eqdc", Lat1: 20, Lat2: 60, Lat0: 40, Lon0: -96, X0m: 400000, Y0m: 400000, Spelling: 1, K0: 1},
		{Proj: "aea", Lat1: 50, Lat2: 58.5, Lat0: 45, Lon0: -126, X0m: 1000000, Y0m: 0, K0: 1},
		{Proj: "eqdc", Lat1: 20, Lat2: 60, Lat0: 40, Lon0: -96, X0m: 0, Y0m: 0},
		{Proj: "eqdc", Lat1: 20, Lat2: 60, Lat0: 40, Lon0: -96, X0m: 400000, Y0m: 400000, Spelling: 1},
		{Proj: "tmerc", Lat0: 49, Lon0: -2, K0: 0.9996012717, X0m: 400000, Y0m: -100000},
		{Proj: "tmerc", Lat0: 0, Lon0: 117, K0: 0.9999, X0m: 500000, Y0m: 10000000},
		// latitude of origin at a pole (Belgian Lambert 72 style; a southern equidistant conic)
		{Proj: "lcc", Lat1: 51.16666723333333, Lat2: 49.8333339, Lat0: 90, Lon0: 4.367486666666666, X0m: 150000.013, Y0m: 5400088.438},
		{Proj: "eqdc", Lat1: -30, Lat2: -60, Lat0: -90, Lon0: 20, X0m: 0, Y0m: 0},
		{Proj: "geog", Lon0: 10},
	}
	for _, b := range base {
		for _, sp := range spheroids {
			for _, tw := range towgs {
				for _, u := range []string{"metre", "foot", "us-ft", "yard", "kilometre"} {
					if b.Proj == "geog" && u != "metre" {
						continue
					}
					r := b
					r.A, r.Rf, r.Towgs, r.Unit = sp[0], sp[1], tw, u
					recs = append(recs, r)
					if b.Proj != "geog" {
						r.UnitFirst = true
						r.P4Reversed = true // (both variations at once: the two texts are independent)
						recs = append(recs, r)
					}
				}
			}
		}
	}
	// the spheroid under a familiar name (the numbers in the text are the
	// definition, whatever the name), and the PARAMETER clauses before PROJECTION
	sphNames := []string{"WGS 84", "WGS84", "GRS 1980", "GRS80", "International_1924", "Clarke_1880", "Clarke_1866", "Bessel_1841", "bessel", "Airy 1830", "airy", "krass", "sphere"}
	for bi, b := range base {
		for si, sp := range spheroids {
			for ti, tw := range towgs[:2] {
				r := b
				r.A, r.Rf, r.Towgs, r.Unit = sp[0], sp[1], tw, "metre"
				for ni, nm := range sphNames {
					if tier != "thorough" && (bi+si+ti+ni)%3 != 0 {
						continue
					}
					q := r
					q.SphName = nm
					recs = append(recs, q)
				}
				for st := 1; st <= 2; st++ {
					// the same text with white space after the commas (no record of the
					// base list has a comma inside a name)
					q := r
					q.WktStyle = st
					recs = append(recs, q)
				}
				if b.Proj != "geog" {
					r.ParamsFirst = true
					recs = append(recs, r)
				}
			}
		}
	}
	rep.Set("records", len(recs))
	for ri, r := range recs {
		p4, wk := r.proj4(), r.wkt()
		if r.Unit != "metre" || len(r.Towgs) > 0 || r.Spelling == 1 {
			nontrivial++
		}
		class := fmt.Sprintf("%s|unit=%s|towgs84=%d|spelling=%d", r.Proj, r.Unit, len(r.Towgs), r.Spelling)
		if r.UnitFirst {
			class += "|unit-clause-first"
		}
		if r.ParamsFirst {
			class += "|parameters-before-projection"
		}
		if r.WktStyle != 0 {
			class += []string{"", "|blank-after-commas", "|line-break-after-commas"}[r.WktStyle]
		}
		if r.SphName != "" {
			class += "|spheroid-named-" + strings.ReplaceAll(r.SphName, " ", "_")
		}
		det := func(extra string) map[string]interface{} {
			return map[string]interface{}{"proj4": p4, "wkt": wk, "observed": extra}
		}
		if r.Proj != "geog" {
			// from the own geographic base (rendered in the same notation)
			tp, e1 := transformer(r.geog().proj4(), p4)
			tw, e2 := transformer(r.geog().wkt(), wk)
			if e1 != "" || e2 != "" {
				rep.Violation("proj4-vs-wkt|"+class+"|cannot-build-transformer", det(e1+" / "+e2))
				continue
			}
			for _, pt := range positions(r) {
				n++
				a, ea := apply(tp, pt)
				b, eb := apply(tw, pt)
				if ea != "" || eb != "" || math.IsNaN(a[0]+a[1]+b[0]+b[1]) {
					rep.Violation("proj4-vs-wkt|"+class+"|error-or-NaN", det(fmt.Sprintf("at %v: proj4 %v %s, wkt %v %s", pt, a, ea, b, eb)))
					break
				}
				if math.Hypot(a[0]-b[0], a[1]-b[1])*unitToMeter[r.Unit] > 1e-6 {
					rep.Violation("proj4-vs-wkt|"+class+"|differ-by-more-than-1um", det(fmt.Sprintf("at %v: proj4 %v, wkt %v", pt, a, b)))
					break
				}
			}
		}
		if len(r.Towgs) > 0 {
			// a datum relation is stated: from WGS84 long/lat
			tp, e1 := transformer("+proj=longlat +datum=WGS84", p4)
			tw, e2 := transformer("+proj=longlat +datum=WGS84", wk)
			if e1 != "" || e2 != "" {
				rep.Violation("proj4-vs-wkt|"+class+"|cannot-build-transformer-from-WGS84", det(e1+" / "+e2))
				continue
			}
			for _, pt := range positions(r) {
				n++
				a, ea := apply(tp, pt)
				b, eb := apply(tw, pt)
				scale := unitToMeter[r.Unit]
				if r.Proj == "geog" {
					scale = 111000
				}
				if ea != "" || eb != "" || math.IsNaN(a[0]+b[0]) || math.Hypot(a[0]-b[0], a[1]-b[1])*scale > 1e-6 {
					rep.Violation("proj4-vs-wkt|"+class+"|from-WGS84-differ-by-more-than-1um", det(fmt.Sprintf("at %v: proj4 %v %s, wkt %v %s", pt, a, ea, b, eb)))
					break
				}
			}
		}
		// parsing the same text twice gives Equal references and a nil transformer
		for _, text := range []string{p4, wk} {
			n++
			var eq bool
			var t proj.Transformer
			var err error
			if p := try(func() {
				a, _ := proj.Parse(text)
				b, _ := proj.Parse(text)
				eq = a.Equal(b, 3)
				t, err = a.NewTransform(b)
			}); p != "" {
				rep.Violation("parse-twice|panic", det(p))
			} else if !eq || t != nil || err != nil {
				rep.Violation("parse-twice|not-Equal-or-non-nil-transformer", det(fmt.Sprint(eq, t == nil, err)))
			}
		}
		if ri%37 == 0 {
			rep.Sample(6, map[string]string{"proj4": p4, "wkt": wk})
		}
	}

	// registered names and aliases
	regs := map[string]string{
		"EPSG:4326": "+title=WGS 84 (long/lat) +proj=longlat +ellps=WGS84 +datum=WGS84 +units=degrees",
		"WGS84":     "+title=WGS 84 (long/lat) +proj=longlat +ellps=WGS84 +datum=WGS84 +units=degrees",
		"EPSG:4269": "+title=NAD83 (long/lat) +proj=longlat +a=6378137.0 +b=6356752.31414036 +ellps=GRS80 +datum=NAD83 +units=degrees",
		"EPSG:3857": "+title=WGS 84 / Pseudo-Mercator +proj=merc +a=6378137 +b=6378137 +lat_ts=0.0 +lon_0=0.0 +x_0=0.0 +y_0=0 +k=1.0 +units=m +nadgrids=@null +no_defs",
	}
	for _, alias := range []string{"EPSG:3785", "GOOGLE", "EPSG:900913", "EPSG:102113"} {
		regs[alias] = regs["EPSG:3857"]
	}
	other := "+proj=utm +zone=33 +datum=WGS84"
	for name, def := range regs {
		for _, dir := range []int{0, 1} {
			var t1, t2 proj.Transformer
			var e1, e2 string
			pts := [][2]float64{{13.5, 52.2}, {16.9, 41.0}, {12.1, -33.3}}
			if dir == 0 {
				t1, e1 = transformer(name, other)
				t2, e2 = transformer(def, other)
				if strings.Contains(def, "merc") {
					pts = [][2]float64{{1502000, 6842000}, {1881000, 5012000}}
				}
			} else {
				t1, e1 = transformer(other, name)
				t2, e2 = transformer(other, def)
				pts = [][2]float64{{500000, 5761038}, {414639.5, 4428236.1}}
			}
			if e1 != "" || e2 != "" {
				rep.Violation("registered-name|cannot-build-transformer", map[string]interface{}{"name": name, "error": e1 + " / " + e2})
				continue
			}
			for _, pt := range pts {
				n++
				a, ea := apply(t1, pt)
				b, eb := apply(t2, pt)
				if ea != "" || eb != "" || math.Hypot(a[0]-b[0], a[1]-b[1]) > 1e-6 || math.IsNaN(a[0]+b[0]) {
					rep.Violation("registered-name|differs-from-definition", map[string]interface{}{"name": name, "definition": def, "direction": dir, "point": pt, "by_name": a, "by_definition": b, "errors": ea + eb})
				}
			}
		}
	}

	// pool: Equal <=> nil transformer, and nil only for references that transform identically
	b0 := "+proj=lcc +lat_1=33 +lat_2=45 +lat_0=38 +lon_0=-96 +x_0=600000 +y_0=0 +ellps=bessel"
	pool := []string{
		b0,
		strings.Replace(b0, "+lat_1=33", "+lat_1=34", 1),
		strings.Replace(b0, "+lat_2=45", "+lat_2=45.000001", 1),
		strings.Replace(b0, "+lat_0=38", "+lat_0=37", 1),
		strings.Replace(b0, "+lon_0=-96", "+lon_0=-95", 1),
		strings.Replace(b0, "+x_0=600000", "+x_0=600001", 1),
		strings.Replace(b0, "+y_0=0", "+y_0=1", 1),
		strings.Replace(b0, "+ellps=bessel", "+ellps=intl", 1),
		b0 + " +units=ft",
		b0 + " +units=us-ft",
		b0 + " +towgs84=577.326,90.129,463.919",
		b0 + " +towgs84=577.326,90.129,463.919,5.137,1.474,5.297,2.4232",
		b0 + " +towgs84=577.326,90.129,463.919,0,0,0,0",
		b0 + " +towgs84=577.326,90.129,463.919,5.137,1.474,5.297,2.5",
		b0 + " +towgs84=577.326,90.129,464.919",
		b0 + " +pm=paris",
		b0 + " +axis=neu",
		strings.Replace(b0, "+proj=lcc", "+proj=aea", 1),
		strings.Replace(b0, "+proj=lcc", "+proj=eqdc", 1),
		// differences of a few 1e-11 (hundreds of thousands of ulps, tenths of a millimetre on the ground)
		strings.Replace(b0, "+lat_1=33", "+lat_1=33.000000004", 1),
		strings.Replace(b0, "+lon_0=-96", "+lon_0=-96.000000004", 1),
		"+proj=tmerc +lat_0=49 +lon_0=-2 +k=0.9996 +x_0=400000 +y_0=-100000 +ellps=bessel",
		"+proj=tmerc +lat_0=49 +lon_0=-2 +k=0.99960000005 +x_0=400000 +y_0=-100000 +ellps=bessel",
		"+proj=longlat +ellps=bessel",
		"+proj=longlat +ellps=bessel +towgs84=577.326,90.129,463.919",
		"+proj=longlat +ellps=bessel +towgs84=577.326,90.129,463.919,5.137,1.474,5.297,2.4232",
		"+proj=longlat +datum=WGS84",
		"+proj=longlat +ellps=WGS84",
		"+proj=longlat +ellps=GRS80 +towgs84=0,0,0",
		"EPSG:4326", "WGS84", "EPSG:3857", "GOOGLE",
		"+proj=utm +zone=33 +datum=WGS84",
		"+proj=utm +zone=33 +south +datum=WGS84",
		"+proj=utm +zone=32 +datum=WGS84",
		"+proj=tmerc +lat_0=0 +lon_0=15 +k=0.9996 +x_0=500000 +y_0=0 +datum=WGS84",
		"+proj=merc +lon_0=0 +k_0=1 +x_0=0 +y_0=0 +datum=WGS84",
	}
	// WKT references that share their PROJCS / GEOGCS names and differ in one
	// parameter each (names carry no meaning)
	{
		w0 := record{Proj: "tmerc", Lat0: 0, Lon0: 9, K0: 0.9996, X0m: 500000, Y0m: 0, A: 6378137, Rf: 298.257223563, Unit: "metre"}
		w1, w2, w3, w4 := w0, w0, w0, w0
		w1.Lon0 = 15
		w2.X0m = 500001
		w3.Unit = "foot"
		w4.A = 6378388
		for _, w := range []record{w0, w1, w2, w3, w4} {
			pool = append(pool, w.wkt(), w.geogWKT())
		}
	}
	geoPts := [][2]float64{{-100, 40}, {-90.5, 31.25}, {14.2, 50.1}}
	toWGS := func(def string) ([][2]float64, string) {
		// characterise a reference by where it sends three geographic positions (through WGS84 long/lat)
		t, e := transformer("+proj=longlat +datum=WGS84", def)
		if e != "" {
			return nil, e
		}
		var o [][2]float64
		for _, p := range geoPts {
			q, er := apply(t, p)
			if er != "" {
				q = [2]float64{math.NaN(), math.NaN()}
			}
			o = append(o, q)
		}
		return o, ""
	}
	for i, a := range pool {
		for j, b := range pool {
			n++
			var eq, isNil bool
			var err error
			if p := try(func() {
				sa, e := proj.Parse(a)
				if e != nil {
					err = e
					return
				}
				sb, e := proj.Parse(b)
				if e != nil {
					err = e
					return
				}
				eq = sa.Equal(sb, 3)
				var t proj.Transformer
				t, err = sa.NewTransform(sb)
				isNil = t == nil
			}); p != "" {
				rep.Violation("pair|panic-in-Equal-or-NewTransform", map[string]interface{}{"a": a, "b": b, "panic": p})
				continue
			}
			if err != nil {
				rep.Violation("pair|error", map[string]interface{}{"a": a, "b": b, "error": err.Error()})
				continue
			}
			if eq != isNil {
				rep.Violation("pair|nil-transformer-not-equivalent-to-Equal", map[string]interface{}{"a": a, "b": b, "Equal": eq, "nil": isNil})
			}
			if i == j && !eq {
				rep.Violation("pair|same-text-not-Equal", map[string]interface{}{"a": a})
			}
			if isNil && i != j {
				// the identity transformer is only right if the references really coincide
				pa, e1 := toWGS(a)
				pb, e2 := toWGS(b)
				same := e1 == "" && e2 == ""
				for k := range pa {
					if same && !(math.Hypot(pa[k][0]-pb[k][0], pa[k][1]-pb[k][1]) <= 1e-6) {
						same = false
					}
				}
				if !same {
					rep.Violation("pair|nil-transformer-for-different-references", map[string]interface{}{"a": a, "b": b, "images_a": pa, "images_b": pb})
				}
			}
		}
	}

	// .prj next to a shapefile
	dir, err := os.MkdirTemp("", "c20-")
	if err == nil {
		defer os.RemoveAll(dir)
		for k, r := range []record{recs[0], recs[len(recs)/2], recs[len(recs)-1]} {
			fn := filepath.Join(dir, fmt.Sprintf("f%d", k))
			w, e := gshp.Create(fn+".shp", gshp.POINT)
			if e != nil {
				report.Harness("%v", e)
			}
			w.Write(&gshp.Point{X: 1, Y: 2})
			w.Close()
			os.WriteFile(fn+".prj", []byte(r.wkt()), 0o644)
			n++
			d, e := shp.NewDecoder(fn + ".shp")
			if e != nil {
				rep.Violation("prj|cannot-open", e.Error())
				continue
			}
			sr, e := d.SR()
			d.Close()
			want, _ := proj.Parse(r.wkt())
			if e != nil || sr == nil || !sr.Equal(want, 3) {
				rep.Violation("prj|SR-differs-from-Parse", map[string]interface{}{"wkt": r.wkt(), "error": fmt.Sprint(e)})
			}
		}
	}
	rep.AddStates(int64(len(recs) + len(pool)*len(pool)))
	rep.AddTransitions(n)
	rep.AddEvals(n)
	rep.AddNontrivial(nontrivial)
	rep.Finish()
}
