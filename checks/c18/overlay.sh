#!/bin/bash
# Instruments encoding/osm from /repo's current working tree (typed AST rewrite)
# and writes the -overlay JSON.
export GOFLAGS=-mod=mod GOPROXY=off GOSUMDB=off GOTOOLCHAIN=local
V="${VERIF_ROOT:-$(cd "$(dirname "$0")/../.." && pwd)}"
cd "$V" || exit 1
go build -o .build/instr ./instr || exit 1
rm -rf .build/c18-src
.build/instr -pkg github.com/ctessum/geom/encoding/osm -out "$V/.build/c18-src" -overlay "$1" -maps
