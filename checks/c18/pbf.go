package main

// A minimal writer of the OSM PBF container (uncompressed "raw" blobs, dense
// nodes, one primitive block per element so that the document's element order
// is kept), written against the format description, not against the decoder.

import "encoding/binary"

func pbVarint(b []byte, v uint64) []byte {
	for v >= 0x80 {
		b = append(b, byte(v)|0x80)
		v >>= 7
	}
	return append(b, byte(v))
}

func pbKey(b []byte, field, wire int) []byte { return pbVarint(b, uint64(field<<3|wire)) }

func pbBytes(b []byte, field int, data []byte) []byte {
	b = pbKey(b, field, 2)
	b = pbVarint(b, uint64(len(data)))
	return append(b, data...)
}

func pbInt(b []byte, field int, v int64) []byte { return pbVarint(pbKey(b, field, 0), uint64(v)) }

func zigzag(v int64) uint64 { return uint64(v<<1) ^ uint64(v>>63) }

func pbPackedSint(b []byte, field int, vals []int64) []byte {
	var p []byte
	for _, v := range vals {
		p = pbVarint(p, zigzag(v))
	}
	return pbBytes(b, field, p)
}

func pbPackedUint(b []byte, field int, vals []uint64) []byte {
	var p []byte
	for _, v := range vals {
		p = pbVarint(p, v)
	}
	return pbBytes(b, field, p)
}

func pbBlob(out []byte, typ string, payload []byte) []byte {
	blob := pbBytes(nil, 1, payload)           // Blob.raw
	blob = pbInt(blob, 2, int64(len(payload))) // Blob.raw_size
	hdr := pbBytes(nil, 1, []byte(typ))        // BlobHeader.type
	hdr = pbInt(hdr, 3, int64(len(blob)))      // BlobHeader.datasize
	var l [4]byte
	binary.BigEndian.PutUint32(l[:], uint32(len(hdr)))
	out = append(out, l[:]...)
	out = append(out, hdr...)
	return append(out, blob...)
}

// PBF renders the document as an OSM PBF file.
func (d Doc) PBF() []byte {
	var hb []byte
	hb = pbBytes(hb, 4, []byte("OsmSchema-V0.6")) // HeaderBlock.required_features
	hb = pbBytes(hb, 4, []byte("DenseNodes"))
	out := pbBlob(nil, "OSMHeader", hb)
	for _, e := range d {
		// string table: "", key, value
		k, v := "c", "d"
		if e.Tagged {
			k, v = "a", "b"
		}
		_ = e.NoTag // (untagged elements are used in Filter scenarios only, which read XML)
		var st []byte
		for _, s := range []string{"", k, v} {
			st = pbBytes(st, 1, []byte(s))
		}
		var grp []byte
		switch e.Kind {
		case 'n':
			lat := outsideCoord(e.ID)
			if e.Inside {
				lat = 0
			}
			lon := lat
			if e.Edge > 0 {
				lat, lon = edgeCoord(e.Edge)
			}
			var dn []byte
			dn = pbPackedSint(dn, 1, []int64{e.ID})
			dn = pbPackedSint(dn, 8, []int64{int64(lat * 1e7)}) // granularity 100 nanodegrees
			dn = pbPackedSint(dn, 9, []int64{int64(lon * 1e7)})
			dn = pbPackedUint(dn, 10, []uint64{1, 2, 0}) // keys_vals: (key, value), end of node
			grp = pbBytes(grp, 2, dn)                    // PrimitiveGroup.dense
		case 'w':
			var w []byte
			w = pbInt(w, 1, e.ID)
			w = pbPackedUint(w, 2, []uint64{1})
			w = pbPackedUint(w, 3, []uint64{2})
			var refs []int64
			prev := int64(0)
			for _, r := range e.Refs {
				refs = append(refs, r.ID-prev)
				prev = r.ID
			}
			w = pbPackedSint(w, 8, refs)
			grp = pbBytes(grp, 3, w) // PrimitiveGroup.ways
		case 'r':
			var r []byte
			r = pbInt(r, 1, e.ID)
			r = pbPackedUint(r, 2, []uint64{1})
			r = pbPackedUint(r, 3, []uint64{2})
			var roles, types []uint64
			var ids []int64
			prev := int64(0)
			for _, m := range e.Refs {
				roles = append(roles, 0)
				ids = append(ids, m.ID-prev)
				prev = m.ID
				types = append(types, map[byte]uint64{'n': 0, 'w': 1, 'r': 2}[m.Kind])
			}
			r = pbPackedUint(r, 8, roles)
			r = pbPackedSint(r, 9, ids)
			r = pbPackedUint(r, 10, types)
			grp = pbBytes(grp, 4, r) // PrimitiveGroup.relations
		}
		var pb []byte
		pb = pbBytes(pb, 1, st)  // PrimitiveBlock.stringtable
		pb = pbBytes(pb, 2, grp) // PrimitiveBlock.primitivegroup
		out = pbBlob(out, "OSMData", pb)
	}
	return out
}

// outsideCoord is the latitude = longitude of a node outside the KeepBounds
// box: a small value derived from the id, whatever the size of the id.
func outsideCoord(id int64) float64 { return 5 + float64(((id%7)+7)%7) }
