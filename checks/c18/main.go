// C18 — OSM extraction is referentially closed and independent of goroutine
// scheduling. Engine E3: the instrumented encoding/osm package runs under the
// controlled scheduler; every schedule with at most `bound` preemptions is
// executed and compared with a sequential least-fixpoint model.
package main

import (
	"bufio"
	"bytes"
	"context"
	"encoding/json"
	"fmt"
	"os"
	"os/exec"
	"runtime"
	"sort"
	"strconv"
	"strings"
	"sync"
	"time"

	"github.com/ctessum/geom"
	gosm "github.com/ctessum/geom/encoding/osm"
	"github.com/paulmach/osm"

	"verif/mc/report"
	"verif/mc/sched"
	"verif/mc/vrt"
)

// ---- documents and the reference model -------------------------------------------

// Elem is one OSM element of a document.
type Elem struct {
	Kind   byte // 'n', 'w', 'r'
	ID     int64
	Inside bool // nodes: inside the KeepBounds box
	Refs   []Ref
	Tagged bool
	Edge   int  `json:",omitempty"` // nodes: exactly on the border of the box: 1 top, 2 right, 3 corner, 4 bottom, 5 left
	NoTag  bool `json:",omitempty"` // the element carries no tag at all
	AX     bool `json:",omitempty"` // the element carries the two tags a=x and c=d (Tagged: a=b and c=x)
}

// edgeCoord is the (lat, lon) of a node on the border of the [-1,1]^2 box.
func edgeCoord(edge int) (float64, float64) {
	switch edge {
	case 1:
		return 1, 0.5
	case 2:
		return 0.5, 1
	case 3:
		return 1, 1
	case 4:
		return -1, 0.5
	}
	return 0.5, -1
}

// Ref is a reference to another element.
type Ref struct {
	Kind byte
	ID   int64
}

func (e Elem) key() string { return fmt.Sprintf("%c%d", e.Kind, e.ID) }
func (r Ref) key() string  { return fmt.Sprintf("%c%d", r.Kind, r.ID) }

// Doc is an OSM document (elements in file order).
type Doc []Elem

func (d Doc) XML() string {
	var b strings.Builder
	b.WriteString("<osm>\n")
	tag := func(e Elem) string {
		if e.AX && e.Tagged {
			return `<tag k="a" v="b"/><tag k="c" v="x"/>`
		}
		if e.AX {
			return `<tag k="a" v="x"/><tag k="c" v="d"/>`
		}
		if e.Tagged {
			return `<tag k="a" v="b"/>`
		}
		if e.NoTag {
			return ""
		}
		return `<tag k="c" v="d"/>` // every other element carries a tag no extraction scenario selects
	}
	for _, e := range d {
		switch e.Kind {
		case 'b':
			// document metadata (as written by the OSM API, JOSM and Overpass): not an element
			if e.ID%2 == 1 {
				b.WriteString(`<bounds minlat="-1" minlon="-1" maxlat="1" maxlon="1"/>` + "\n")
			} else {
				b.WriteString(`<note>an extract</note>` + "\n")
			}
		case 'n':
			lat, lon := outsideCoord(e.ID), outsideCoord(e.ID)
			if e.Inside {
				lat, lon = 0, 0
			}
			if e.Edge > 0 {
				lat, lon = edgeCoord(e.Edge)
			}
			fmt.Fprintf(&b, `<node id="%d" lat="%g" lon="%g">%s</node>`+"\n", e.ID, lat, lon, tag(e))
		case 'w':
			fmt.Fprintf(&b, `<way id="%d">`, e.ID)
			for _, r := range e.Refs {
				fmt.Fprintf(&b, `<nd ref="%d"/>`, r.ID)
			}
			b.WriteString(tag(e) + "</way>\n")
		case 'r':
			fmt.Fprintf(&b, `<relation id="%d">`, e.ID)
			for _, r := range e.Refs {
				t := map[byte]string{'n': "node", 'w': "way", 'r': "relation"}[r.Kind]
				fmt.Fprintf(&b, `<member type="%s" ref="%d" role=""/>`, t, r.ID)
			}
			b.WriteString(tag(e) + "</relation>\n")
		}
	}
	b.WriteString("</osm>\n")
	return b.String()
}

func (d Doc) String() string {
	var s []string
	for _, e := range d {
		x := e.key()
		if len(e.Refs) > 0 {
			var r []string
			for _, y := range e.Refs {
				r = append(r, y.key())
			}
			x += "(" + strings.Join(r, " ") + ")"
		}
		if e.Tagged {
			x += "#"
		}
		if e.Kind == 'n' && e.Inside {
			x += "@"
		}
		if e.Kind == 'n' && e.Edge > 0 {
			x += fmt.Sprintf("@edge%d", e.Edge)
		}
		if e.NoTag {
			x += "~"
		}
		s = append(s, x)
	}
	return strings.Join(s, " ")
}

func (d Doc) dangling() bool {
	have := map[string]bool{}
	for _, e := range d {
		have[e.key()] = true
	}
	for _, e := range d {
		for _, r := range e.Refs {
			if !have[r.key()] {
				return true
			}
		}
	}
	return false
}

const (
	keepAll = iota
	keepTags
	keepBounds
	keepOtherTags // selects exactly the elements that are not Tagged (second Filter of a history)
	keepTwoKeys   // two wanted keys: a=b or c=d
)

var keepNames = []string{"KeepAll", "KeepTags{a:[b]}", "KeepBounds([-1,1]^2)", "KeepTags{c:[d]}", "KeepTags{a:[b],c:[d]}"}

func keepFunc(k int) gosm.KeepFunc {
	switch k {
	case keepAll:
		return gosm.KeepAll()
	case keepTags:
		return gosm.KeepTags(map[string][]string{"a": {"b"}})
	case keepOtherTags:
		return gosm.KeepTags(map[string][]string{"c": {"d"}})
	case keepTwoKeys:
		return gosm.KeepTags(map[string][]string{"a": {"b"}, "c": {"d"}})
	}
	return gosm.KeepBounds(&geom.Bounds{Min: geom.Point{X: -1, Y: -1}, Max: geom.Point{X: 1, Y: 1}})
}

// lfp is the reference model: the least set containing every element the keep
// function selects (given the set so far) and everything those reference.
func lfp(d Doc, keep int) map[string]bool {
	s := map[string]bool{}
	sel := func(e Elem) bool {
		switch keep {
		case keepAll:
			return true
		case keepTags:
			return e.Tagged
		case keepOtherTags:
			return !e.Tagged && !e.NoTag
		case keepTwoKeys:
			return !e.NoTag // a=b (Tagged), c=d (the default tag), or both keys with one value matching (AX)
		}
		if e.Kind == 'n' {
			return e.Inside || e.Edge > 0 // the box is closed: a node on its border is selected
		}
		for _, r := range e.Refs {
			if s[r.key()] {
				return true
			}
		}
		return false
	}
	for changed := true; changed; {
		changed = false
		needed := map[string]bool{}
		for _, e := range d {
			if s[e.key()] {
				for _, r := range e.Refs {
					needed[r.key()] = true
				}
			}
		}
		for _, e := range d {
			if e.Kind == 'b' {
				continue // metadata is no element
			}
			if !s[e.key()] && (sel(e) || needed[e.key()]) {
				s[e.key()] = true
				changed = true
			}
		}
	}
	return s
}

func setString(s map[string]bool) string {
	var k []string
	for x, v := range s {
		if v {
			k = append(k, x)
		}
	}
	sort.Strings(k)
	return strings.Join(k, ",")
}

func dataSet(d *gosm.Data) map[string]bool {
	s := map[string]bool{}
	for k := range d.Nodes {
		s[fmt.Sprintf("n%d", k)] = true
	}
	for k := range d.Ways {
		s[fmt.Sprintf("w%d", k)] = true
	}
	for k := range d.Relations {
		s[fmt.Sprintf("r%d", k)] = true
	}
	return s
}

// ---- scenarios ----------------------------------------------------------------------

// Scenario is one exploration unit.
type Scenario struct {
	Kind   string // "extract" or "filter"
	Doc    Doc
	Keep   int
	NProcs int
	Bound  int
	Split  int  // number of process shards of the DFS
	Delay  bool // deviation (delay) bounding instead of preemption bounding
}

func (s Scenario) String() string {
	mode := "preemptions"
	if s.Delay {
		mode = "deviations"
	}
	return fmt.Sprintf("%s %s nprocs=%d bound=%d %s doc=[%s]", s.Kind, keepNames[s.Keep], s.NProcs, s.Bound, mode, s.Doc)
}

func n(id int64, inside bool) Elem { return Elem{Kind: 'n', ID: id, Inside: inside} }
func w(id int64, nodes ...int64) Elem {
	e := Elem{Kind: 'w', ID: id}
	for _, x := range nodes {
		e.Refs = append(e.Refs, Ref{'n', x})
	}
	return e
}
func r(id int64, refs ...Ref) Elem { return Elem{Kind: 'r', ID: id, Refs: refs} }

// universe of elements for the sequential tier
func universe() []Elem {
	return []Elem{
		n(1, true), n(2, false), n(3, false),
		w(1, 1, 2), w(2, 2, 3),
		r(1, Ref{'w', 1}), r(1, Ref{'n', 3}), r(1, Ref{'r', 2}),
		r(1, Ref{'w', 2}, Ref{'r', 2}), // way 2 and relation 2: equal ids in different id spaces
		r(2, Ref{'r', 1}),
	}
}

func permutations(d Doc, f func(Doc)) {
	p := append(Doc{}, d...)
	var rec func(k int)
	rec = func(k int) {
		if k == len(p) {
			f(append(Doc{}, p...))
			return
		}
		for i := k; i < len(p); i++ {
			p[k], p[i] = p[i], p[k]
			rec(k + 1)
			p[k], p[i] = p[i], p[k]
		}
	}
	rec(0)
}

func scenarios(tier string) []Scenario {
	var out []Scenario
	u := universe()
	maxElems, seqBound := 4, 1
	if tier == "thorough" {
		maxElems, seqBound = 5, 2
	}
	// sequential tier: all dangling-free documents (and those with exactly one
	// dangling reference of <=3 elements) in all element orders, one worker
	var subsets []Doc
	for mask := 1; mask < 1<<len(u); mask++ {
		var d Doc
		ids := map[string]bool{}
		dup := false
		for i, e := range u {
			if mask>>uint(i)&1 == 1 {
				if ids[e.key()] {
					dup = true
				}
				ids[e.key()] = true
				d = append(d, e)
			}
		}
		if dup || len(d) > maxElems {
			continue
		}
		if d.dangling() && len(d) > 2 {
			continue
		}
		subsets = append(subsets, d)
	}
	for _, d := range subsets {
		permutations(d, func(p Doc) {
			out = append(out, Scenario{"extract", p, keepAll, 1, seqBound, 1, false})
			out = append(out, Scenario{"extract", p, keepBounds, 1, seqBound, 1, false})
			for t := range p {
				q := append(Doc{}, p...)
				q[t].Tagged = true
				out = append(out, Scenario{"extract", q, keepTags, 1, seqBound, 1, false})
			}
		})
	}
	// documents with a dangling reference shared by two elements (a regional
	// extract cut at its border): the missing object stays wanted for ever and
	// must not make anything else selected
	for _, d := range []Doc{
		{n(1, true), w(1, 1, 9), w(2, 9, 3), n(3, false)},
		{n(1, true), w(1, 1, 9), w(2, 9, 3), n(3, false), r(1, Ref{'w', 2})},
		{n(1, true), r(1, Ref{'n', 1}, Ref{'w', 9}), r(2, Ref{'w', 9}, Ref{'n', 3}), n(3, false)},
		{n(1, true), r(1, Ref{'n', 1}, Ref{'r', 9}), r(2, Ref{'r', 9}, Ref{'n', 3}), n(3, false)},
	} {
		permutations(d, func(p Doc) {
			out = append(out, Scenario{"extract", p, keepBounds, 1, seqBound, 1, false})
			q := append(Doc{}, p...)
			for t := range q {
				if q[t].Kind == 'n' && q[t].Inside {
					q[t].Tagged = true
				}
			}
			out = append(out, Scenario{"extract", q, keepTags, 1, seqBound, 1, false})
		})
	}
	// nodes exactly on the border of the box (closed box: selected), and ways
	// that touch the box only there; ways of a single node
	for edge := 1; edge <= 5; edge++ {
		on := Elem{Kind: 'n', ID: 1, Edge: edge}
		for _, d := range []Doc{
			{on, w(1, 1, 2), n(2, false)},
			{on, w(1, 1, 2), n(2, false), r(1, Ref{'w', 1})},
		} {
			permutations(d, func(p Doc) {
				out = append(out, Scenario{"extract", p, keepBounds, 1, seqBound, 1, false})
			})
			out = append(out, Scenario{"pbf", d, keepBounds, 1, 0, 1, false})
		}
	}
	tag := func(e Elem) Elem { e.Tagged = true; return e }
	for _, d := range []Doc{
		{n(4, false), tag(w(11, 4))},
		{n(4, false), w(11, 4), tag(r(5, Ref{'w', 11}))},
		{n(4, false), w(11, 4), n(5, true)},
		{n(4, true), w(11, 4), r(5, Ref{'w', 11})},
	} {
		permutations(d, func(p Doc) {
			out = append(out, Scenario{"extract", p, keepTags, 1, seqBound, 1, false})
			out = append(out, Scenario{"extract", p, keepBounds, 1, seqBound, 1, false})
			out = append(out, Scenario{"extract", p, keepAll, 1, seqBound, 1, false})
		})
		out = append(out, Scenario{"pbf", d, keepTags, 1, 0, 1, false})
		out = append(out, Scenario{"filter", d, keepTags, 1, 1, 1, false})
	}
	// unusual but legal identifiers: negative ids (editors number new objects
	// downwards from -1) and ids beyond 2^40
	big := int64(1) << 40
	for _, d := range []Doc{
		{n(-1, true), n(-2, false), w(-10, -1, -2), r(-21, Ref{'w', -10})},
		{n(-1, false), r(-21, Ref{'n', -1}, Ref{'r', -22}), r(-22, Ref{'n', -2}), n(-2, false)},
		{n(big+1, true), n(big+2, false), w(big+10, big+1, big+2), r(big+21, Ref{'w', big + 10})},
		{n(big+1, false), r(big+21, Ref{'n', big + 1}, Ref{'r', big + 22}), r(big+22, Ref{'n', big + 2}), n(big+2, false)},
	} {
		permutations(d, func(p Doc) {
			out = append(out, Scenario{"extract", p, keepBounds, 1, seqBound, 1, false})
			out = append(out, Scenario{"extract", p, keepAll, 1, seqBound, 1, false})
			q := append(Doc{}, p...)
			for t := range q {
				if q[t].Kind == 'r' && (q[t].ID == -21 || q[t].ID == big+21) {
					q[t].Tagged = true
				}
			}
			out = append(out, Scenario{"extract", q, keepTags, 1, seqBound, 1, false})
		})
		q := append(Doc{}, d...)
		q[len(q)-1].Tagged = true
		out = append(out, Scenario{"pbf", d, keepAll, 1, 0, 1, false}, Scenario{"pbf", d, keepBounds, 1, 0, 1, false}, Scenario{"pbf", q, keepTags, 1, 0, 1, false})
	}
	// concurrent tier: sharp documents in which the collision is forced
	tagged := func(e Elem) Elem { e.Tagged = true; return e }
	sharp := []Doc{
		{n(1, true), w(1, 1, 2), n(2, false)},                                                                         // node immediately before the way that needs it
		{w(1, 1, 2), n(1, true), n(2, false)},                                                                         // way first
		{n(1, true), n(2, false), w(1, 1, 2)},                                                                         // nodes first
		{n(1, true), n(2, false), w(1, 1, 2), w(2, 2, 3), n(3, false)},                                                // shared node between two ways
		{n(1, true), w(1, 1, 2), r(1, Ref{'w', 1}), n(2, false)},                                                      // relation adjacent to its member
		{r(1, Ref{'w', 1}), w(1, 1, 2), n(1, true), n(2, false)},                                                      // reverse dependency order
		{n(1, true), r(1, Ref{'n', 1}, Ref{'r', 2}), r(2, Ref{'r', 1})},                                               // relation cycle entered through a node
		{r(2, Ref{'r', 1}), r(1, Ref{'n', 1}, Ref{'r', 2}), n(1, true)},                                               // cycle, reverse
		{n(3, false), r(1, Ref{'n', 3}), n(1, true), w(1, 1, 2), n(2, false)},                                         // unrelated relation + way
		{n(1, true), n(2, false), w(1, 1, 2), r(1, Ref{'w', 1}), r(2, Ref{'r', 1})},                                   // chain of three levels
		{tagged(r(1, Ref{'w', 2}, Ref{'r', 2})), r(2, Ref{'n', 1}), w(2, 2, 3), n(1, true), n(2, false), n(3, false)}, // way 2 and relation 2 share their id
	}
	// Two complementary bounded searches per sharp document:
	//  - preemption bounding (free switches at blocking points, every
	//    preemption charged) on the three smallest documents with 2 workers;
	//  - deviation (delay) bounding, where every departure from the canonical
	//    non-preemptive lowest-id-first scheduler is charged, everywhere else
	//    (the space of free switches grows exponentially with workers x elements).
	add := func(d Doc, keep, np, b, split int, delay bool) {
		out = append(out, Scenario{"extract", d, keep, np, b, split, delay})
	}
	for i, d := range sharp {
		q := append(Doc{}, d...)
		q[len(q)-1] = tagged(q[len(q)-1])
		for j := range q {
			if q[j].Kind != 'n' {
				q[j] = tagged(q[j])
				break
			}
		}
		for _, np := range []int{2, 3} {
			db := 2
			split := 4
			if tier == "thorough" {
				split = 16
				if np == 2 && len(d) <= 4 {
					db = 3
				}
			}
			add(d, keepBounds, np, db, split, true)
			add(q, keepTags, np, db, split, true)
			if i%3 == 0 {
				add(d, keepAll, np, db, split, true)
			}
		}
		if i < 3 {
			pb := 1
			if tier == "thorough" {
				pb = 2
			}
			add(d, keepBounds, 2, pb, 8, false)
			add(q, keepTags, 2, pb, 8, false)
			if tier == "thorough" {
				// three workers under preemption bounding: the free switches at
				// blocking points alone give > 10^5 executions per document
				add(d, keepBounds, 3, 1, 16, false)
			}
		}
	}
	// long dependency chains (one link discovered per pass): a road of N
	// end-to-end ways of which only the first node is inside the box, in document
	// order and with the ways listed backwards; relations nested N deep, listed
	// children first, of which only the outermost is tagged (and the reverse
	// listing); sequential and as PBF
	for _, N := range []int{45, 70} {
		var road, roadBack Doc
		for i := 1; i <= N+1; i++ {
			road = append(road, n(int64(i), i == 1))
		}
		roadBack = append(roadBack, road...)
		for i := 1; i <= N; i++ {
			road = append(road, w(int64(1000+i), int64(i), int64(i+1)))
			roadBack = append(roadBack, w(int64(1000+N+1-i), int64(N+1-i), int64(N+2-i)))
		}
		nest := Doc{n(1, false), r(1, Ref{'n', 1})}
		for i := 2; i <= N; i++ {
			nest = append(nest, r(int64(i), Ref{'r', int64(i - 1)}))
		}
		nest[len(nest)-1].Tagged = true
		var nestBack Doc
		for i := len(nest) - 1; i >= 0; i-- {
			nestBack = append(nestBack, nest[i])
		}
		for _, kd := range []string{"extract", "pbf"} {
			out = append(out, Scenario{kd, road, keepBounds, 1, 0, 1, false}, Scenario{kd, roadBack, keepBounds, 1, 0, 1, false},
				Scenario{kd, nest, keepTags, 1, 0, 1, false}, Scenario{kd, nestBack, keepTags, 1, 0, 1, false})
		}
		out = append(out, Scenario{"extract", road, keepBounds, 2, 0, 1, true}, Scenario{"extract", nest, keepTags, 2, 0, 1, true})
	}
	// documents with metadata (<bounds>, <note>) at the top, between the elements
	// and just before the last element; one and two workers
	{
		meta := func(id int64) Elem { return Elem{Kind: 'b', ID: id} }
		for _, d := range []Doc{
			{meta(1), n(1, true), n(2, false), w(1, 1, 2)},
			{n(1, true), n(2, false), meta(1), w(1, 1, 2)},
			{meta(1), meta(2), n(1, true), meta(3), w(1, 1, 2), n(2, false), meta(4), r(1, Ref{'w', 1})},
			{n(1, false), meta(2), meta(1), n(2, true)},
		} {
			out = append(out, Scenario{"extract", d, keepAll, 1, seqBound, 1, false}, Scenario{"extract", d, keepBounds, 1, seqBound, 1, false})
			q := append(Doc{}, d...)
			q[len(q)-1].Tagged = true
			out = append(out, Scenario{"extract", q, keepTags, 1, seqBound, 1, false}, Scenario{"extract", d, keepAll, 2, 1, 1, true}, Scenario{"extract", d, keepBounds, 2, 1, 1, true})
		}
	}
	// relations that list themselves (or each other) among their members, with
	// further members before and after the self reference
	for _, d := range []Doc{
		{n(1, false), n(2, false), w(1, 1, 2), n(3, false), r(1, Ref{'r', 1}, Ref{'w', 1}, Ref{'n', 3})},
		{n(1, false), n(2, false), w(1, 1, 2), n(3, false), r(1, Ref{'w', 1}, Ref{'r', 1}, Ref{'n', 3})},
		{r(1, Ref{'r', 1}, Ref{'n', 3}), n(3, false)},
		{n(3, false), n(4, false), r(1, Ref{'r', 2}, Ref{'n', 3}), r(2, Ref{'r', 1}, Ref{'n', 4})},
	} {
		q := append(Doc{}, d...)
		for t := range q {
			if q[t].Kind == 'r' && q[t].ID == 1 {
				q[t].Tagged = true
			}
		}
		out = append(out, Scenario{"extract", q, keepTags, 1, seqBound, 1, false}, Scenario{"extract", q, keepTags, 2, 1, 1, true}, Scenario{"filter", q, keepTags, 1, 1, 1, false}, Scenario{"pbf", q, keepTags, 1, 0, 1, false}, Scenario{"extract", d, keepAll, 1, seqBound, 1, false})
	}
	// two wanted keys, and elements that carry both keys with only one value
	// matching (a=x c=d, or a=b c=x), next to untagged ones
	{
		bare := func(e Elem) Elem { e.NoTag = true; return e }
		for _, d := range []Doc{
			{n(1, false), bare(n(2, false))},
			{bare(n(1, false)), w(1, 1, 2), bare(n(2, false))},
			{bare(n(1, false)), bare(w(1, 1, 2)), bare(n(2, false)), r(1, Ref{'w', 1})},
			{bare(n(1, false)), bare(w(1, 1, 2)), bare(n(2, false)), bare(r(1, Ref{'w', 1})), n(3, false)},
		} {
			for t := range d {
				if d[t].NoTag {
					continue
				}
				for _, tg := range []bool{false, true} {
					q := append(Doc{}, d...)
					q[t].AX, q[t].Tagged = true, tg
					out = append(out, Scenario{"extract", q, keepTwoKeys, 1, seqBound, 1, false}, Scenario{"filter", q, keepTwoKeys, 1, 1, 1, false})
					if tg {
						out = append(out, Scenario{"extract", q, keepTags, 1, seqBound, 1, false})
					}
				}
			}
		}
	}
	// PBF container: every document of the sequential tier (one element order;
	// all orders for <= 3 elements) and the dangling documents, free-running
	for _, d := range subsets {
		each := func(p Doc) {
			out = append(out, Scenario{"pbf", p, keepAll, 1, 0, 1, false})
			out = append(out, Scenario{"pbf", p, keepBounds, 1, 0, 1, false})
			q := append(Doc{}, p...)
			q[len(q)-1].Tagged = true
			out = append(out, Scenario{"pbf", q, keepTags, 1, 0, 1, false})
		}
		if len(d) <= 3 {
			permutations(d, each)
		} else {
			each(d)
		}
	}
	// Filter: sequential, map iteration order as environment choice
	fb := 1
	if tier == "thorough" {
		fb = 2
	}
	// (data with dangling references - a clipped extract - is legal input too)
	filterDocs := append([]Doc{}, subsets...)
	filterDocs = append(filterDocs,
		Doc{n(1, true), w(1, 1, 9), w(2, 9, 3), n(3, false)},
		Doc{n(1, true), w(1, 1, 9), w(2, 9, 3), n(3, false), r(1, Ref{'w', 2})},
		Doc{n(1, true), r(1, Ref{'n', 1}, Ref{'n', 9}), w(1, 1, 8)},
		Doc{n(1, true), r(1, Ref{'n', 1}, Ref{'w', 9}), r(2, Ref{'r', 9}, Ref{'n', 1})})
	// elements without any tag (bare way vertices, free-standing untagged nodes)
	bare := func(e Elem) Elem { e.NoTag = true; return e }
	filterDocs = append(filterDocs,
		Doc{bare(n(1, true)), n(2, false)},
		Doc{bare(n(1, true)), bare(n(2, false)), w(1, 2, 3), bare(n(3, false))},
		Doc{bare(n(1, false)), bare(w(1, 1, 2)), bare(n(2, false)), bare(r(1, Ref{'w', 1}))})
	for _, d := range filterDocs {
		if len(d) < 2 || (d.dangling() && len(d) <= 2) {
			continue
		}
		out = append(out, Scenario{"filter", d, keepAll, 1, fb, 1, false})
		for t := range d {
			q := append(Doc{}, d...)
			q[t].Tagged = true
			out = append(out, Scenario{"filter", q, keepTags, 1, fb, 1, false})
		}
	}
	return out
}

// ---- execution ------------------------------------------------------------------------

type scenResult struct {
	Idx        int
	Shard      int
	Execs      int64
	Points     int64
	MaxPoints  int
	Preempting int64
	Outcomes   map[string]int64
	Violations []sched.Violation
	Harness    string
	Capped     bool
	Expected   string
	FreeRun    []string
}

func extractOnce(s Scenario) (string, string) {
	rd := strings.NewReader(s.Doc.XML())
	d, err := gosm.ExtractXML(context.Background(), rd, keepFunc(s.Keep), true)
	if err != nil {
		return "error: " + err.Error(), "error"
	}
	if s.NProcs == 1 && s.Kind == "extract" {
		// history: a second extraction from the same reader (left wherever the
		// first one stopped) must give the same result
		d2, err2 := gosm.ExtractXML(context.Background(), rd, keepFunc(s.Keep), true)
		if err2 != nil || setString(dataSet(d2)) != setString(dataSet(d)) {
			got := "error"
			if err2 == nil {
				got = setString(dataSet(d2))
			}
			return setString(dataSet(d)) + " then " + got, "second-extraction-from-the-same-reader-differs"
		}
	}
	got := setString(dataSet(d))
	want := setString(lfp(s.Doc, s.Keep))
	out := got
	viol := ""
	if got != want {
		viol = "not-least-fixpoint"
	}
	if !s.Doc.dangling() {
		if cerr := d.Check(); cerr != nil {
			out += " check:" + cerr.Error()
			if viol == "" {
				viol = "check-fails"
			}
		}
	}
	return out, viol
}

// dataString renders every field of a data set in a canonical order.
func dataString(d *gosm.Data) string {
	var l []string
	for _, n := range d.Nodes {
		l = append(l, fmt.Sprintf("n%d %+v", n.ID, *n))
	}
	for _, w := range d.Ways {
		l = append(l, fmt.Sprintf("w%d %+v", w.ID, *w))
	}
	for _, r := range d.Relations {
		l = append(l, fmt.Sprintf("r%d %+v", r.ID, *r))
	}
	sort.Strings(l)
	return strings.Join(l, "\n")
}

// copyData is a deep copy of the exported content of a data set (every
// execution of a filter scenario starts from its own copy, so that an
// execution that writes to its input cannot disturb the next one).
func copyData(d *gosm.Data) *gosm.Data {
	o := &gosm.Data{Nodes: map[osm.NodeID]*gosm.Node{}, Ways: map[osm.WayID]*gosm.Way{}, Relations: map[osm.RelationID]*gosm.Relation{}}
	for k, n := range d.Nodes {
		c := *n
		c.Tags = append(osm.Tags(nil), n.Tags...)
		o.Nodes[k] = &c
	}
	for k, w := range d.Ways {
		c := *w
		c.Tags = append(osm.Tags(nil), w.Tags...)
		c.Nodes = append([]osm.NodeID(nil), w.Nodes...)
		o.Ways[k] = &c
	}
	for k, r := range d.Relations {
		c := *r
		c.Tags = append(osm.Tags(nil), r.Tags...)
		c.Members = append([]gosm.Member(nil), r.Members...)
		o.Relations[k] = &c
	}
	return o
}

// fullSnapshot is the rendering of the scenario's input data set taken before
// the first Filter call.
var fullSnapshot string

func filterOnce(s Scenario, original *gosm.Data) (string, string) {
	full := copyData(original)
	k := keepFunc(s.Keep)
	f1 := full.Filter(k)
	f2 := f1.Filter(k)
	got := setString(dataSet(f1))
	want := setString(lfp(s.Doc, s.Keep))
	viol := ""
	switch {
	case got != want:
		viol = "filter-not-least-fixpoint"
	case setString(dataSet(f2)) != got:
		viol = "filter-not-idempotent"
	case !s.Doc.dangling() && f1.Check() != nil:
		viol = "filter-not-closed"
	}
	for k := range dataSet(f1) {
		if !dataSet(full)[k] {
			viol = "filter-returns-more"
		}
	}
	// history: Filter must leave its input as it was, and a different Filter on
	// the same input afterwards must still see all of it
	if viol == "" && dataString(full) != fullSnapshot {
		viol = "filter-modifies-its-input"
	}
	if viol == "" {
		f3 := full.Filter(keepFunc(keepOtherTags))
		if setString(dataSet(f3)) != setString(lfp(s.Doc, keepOtherTags)) {
			viol = "second-filter-on-the-same-input-not-least-fixpoint"
		}
	}
	return got + " | twice:" + setString(dataSet(f2)), viol
}

// pbfOnce extracts the document from its PBF rendering (free-running: the PBF
// scanner owns goroutines the scheduler does not control) and compares with
// the reference model and with the extraction of the XML rendering.
func pbfOnce(s Scenario) (string, string) {
	var dp, dx *gosm.Data
	var ep, ex error
	if p := try(func() {
		dp, ep = gosm.ExtractPBF(context.Background(), bytes.NewReader(s.Doc.PBF()), keepFunc(s.Keep), true)
		dx, ex = gosm.ExtractXML(context.Background(), strings.NewReader(s.Doc.XML()), keepFunc(s.Keep), true)
	}); p != "" {
		return "panic: " + p, "panic"
	}
	if ep != nil || ex != nil {
		return fmt.Sprintf("error: pbf %v, xml %v", ep, ex), "error"
	}
	got := setString(dataSet(dp))
	switch {
	case got != setString(lfp(s.Doc, s.Keep)):
		return got, "not-least-fixpoint"
	case !s.Doc.dangling() && dp.Check() != nil:
		return got, "check-fails"
	}
	strip := func(d *gosm.Data) string {
		c := copyData(d)
		// identities and references only: the two formats round coordinates
		// differently, and the property does not speak about tags
		for _, n := range c.Nodes {
			n.Lat, n.Lon, n.Tags = 0, 0, nil
		}
		for _, w := range c.Ways {
			w.Tags = nil
		}
		for _, r := range c.Relations {
			r.Tags = nil
		}
		return dataString(c)
	}
	if a, b := strip(dp), strip(dx); a != b {
		return got, "pbf-extraction-differs-from-xml-extraction"
	}
	return got, ""
}

func try(f func()) (p string) {
	defer func() {
		if r := recover(); r != nil {
			p = fmt.Sprint(r)
		}
	}()
	f()
	return ""
}

func runScenario(idx int, s Scenario, shard int) scenResult {
	runtime.GOMAXPROCS(s.NProcs)
	res := scenResult{Idx: idx, Shard: shard, Expected: setString(lfp(s.Doc, s.Keep))}
	if s.Kind == "pbf" {
		o, v := pbfOnce(s)
		res.Execs, res.Outcomes = 1, map[string]int64{o: 1}
		if v != "" {
			res.Violations = []sched.Violation{{Symptom: v, Outcome: o}}
		}
		return res
	}
	var full *gosm.Data
	if s.Kind == "filter" {
		var err error
		full, err = gosm.ExtractXML(context.Background(), strings.NewReader(s.Doc.XML()), gosm.KeepAll(), true)
		if err != nil || len(dataSet(full)) != len(s.Doc) {
			res.Harness = fmt.Sprintf("cannot build the full data set for the filter scenario: %v", err)
			return res
		}
		fullSnapshot = dataString(full)
	}
	var stop func() bool
	if dl, err := strconv.ParseInt(os.Getenv("VERIF_DEADLINE"), 10, 64); err == nil && dl > 0 {
		stop = func() bool { return time.Now().Unix() > dl }
	}
	horizon := 0 // the scheduler's default (100 000 steps)
	if len(s.Doc) > 40 {
		horizon = 20000000 // long chains: tens of passes over a hundred elements
	}
	cfg := sched.Config{Bound: s.Bound, Delay: s.Delay, EnvChoices: s.Kind == "filter", Shard: shard, NShards: s.Split, Stop: stop, Horizon: horizon,
		Body: func() sched.Result {
			var o, v string
			if s.Kind == "filter" {
				o, v = filterOnce(s, full)
			} else {
				o, v = extractOnce(s)
			}
			return sched.Result{Outcome: o, Violation: v}
		}}
	st := sched.Explore(cfg)
	res.Execs, res.Points, res.MaxPoints, res.Preempting = st.Execs, st.Points, st.MaxPoints, st.Preempting
	res.Outcomes, res.Violations, res.Harness, res.Capped = st.Outcomes, st.Violations, st.Harness, st.Capped
	// conformance of the shim: the free-running package (real primitives) must
	// produce an outcome the explorer has seen
	// (not when the exploration has already found a violation: a schedule that
	// deadlocks under the explorer deadlocks the real primitives for good)
	if shard == 0 && s.Kind == "extract" && s.NProcs > 1 && st.Harness == "" && len(st.Violations) == 0 {
		for _, p := range []int{1, 2, 4} {
			runtime.GOMAXPROCS(p)
			done := make(chan string, 1)
			go func() { o, _ := extractOnce(s); done <- o }()
			select {
			case o := <-done:
				res.FreeRun = append(res.FreeRun, o)
			case <-time.After(2 * time.Minute):
				// (a document of a few elements takes microseconds)
				res.FreeRun = append(res.FreeRun, fmt.Sprintf("free-running extraction with GOMAXPROCS=%d did not return within 2 minutes", p))
			}
		}
	}
	return res
}

func workerMain(tier string, shard, nshards int) {
	items := workItems(scenarios(tier))
	w := bufio.NewWriter(os.Stdout)
	for i, it := range items {
		if i%nshards != shard {
			continue
		}
		if os.Getenv("VERIF_C18_DEBUG") != "" {
			fmt.Fprintf(os.Stderr, "item %d: scenario %d shard %d: %s\n", i, it.idx, it.shard, it.s)
		}
		res := runScenario(it.idx, it.s, it.shard)
		b, _ := json.Marshal(res)
		w.Write(b)
		w.WriteByte('\n')
		w.Flush()
	}
}

type item struct {
	idx   int
	s     Scenario
	shard int
}

// workItems orders (scenario, DFS shard) pairs with the expensive ones first.
func workItems(sc []Scenario) []item {
	var big, small []item
	for i, s := range sc {
		for sh := 0; sh < s.Split; sh++ {
			if s.Split > 1 {
				big = append(big, item{i, s, sh})
			} else {
				small = append(small, item{i, s, sh})
			}
		}
	}
	return append(big, small...)
}

func main() {
	tier := "quick"
	if len(os.Args) > 1 {
		tier = os.Args[1]
	}
	if tier == "worker" {
		sh, _ := strconv.Atoi(os.Args[3])
		n, _ := strconv.Atoi(os.Args[4])
		workerMain(os.Args[2], sh, n)
		return
	}
	if tier == "replay" {
		replay(os.Args[2])
		return
	}
	rep := report.New("C18", tier, "model_checking")
	rep.Rule = "E3: instrumented encoding/osm (sync.Mutex/RWMutex, errgroup, channel, go rewritten to the vrt shim) under a cooperative scheduler; stateless DFS over all schedules with <= bound preemptions (scheduling point before every lock/unlock/send/recv/close/spawn/wait); sequential tier: every dangling-free document over 3 nodes, 2 ways, 2 relations with <= 4(5) elements in every element order x {KeepAll, KeepBounds, KeepTags on each element}, one worker, bound 1(2); concurrent tier: 10 sharp documents x 2-3 workers x keep functions, bound 1-2(2-3); Filter: map-iteration orders as environment choices, deviation bound 1(2). sequential tier: a second extraction from the same reader must agree; documents with a node exactly on each side / corner of the box and with single-node ways in every element order; four documents with a dangling reference shared by two elements and four with negative ids / ids beyond 2^40 in every element order (also as PBF). Filter also on data with dangling references. PBF: the same documents (all element orders up to 3 elements) written as OSM PBF by an independent minimal writer and extracted with ExtractPBF, free-running: least fixpoint, Check, and the same identities and references as the XML extraction. Filter history: the input data set is unchanged afterwards (every field) and a second Filter with another keep function on the same input is its least fixpoint. Oracle per execution: Nodes/Ways/Relations = sequential least fixpoint, Check()==nil for dangling-free documents, no panic/deadlock/livelock; Filter = fixpoint, idempotent, closed, subset. Non-trivial = executions with at least one deviation."
	rep.Assumptions = []string{"ExtractPBF is exercised free-running only (osmpbf owns goroutines the scheduler does not control); it shares extract(), which is", "memory-model effects below the hooked synchronisation operations are covered only by a separate -race pass", "the free-running package's outcome must be among the explored outcomes (shim conformance)"}
	sc := scenarios(tier)
	rep.Set("scenarios", len(sc))
	self, _ := os.Executable()
	nw := 16
	var mu sync.Mutex
	var wg sync.WaitGroup
	agg := map[int]*scenResult{}
	harness := ""
	for sh := 0; sh < nw; sh++ {
		wg.Add(1)
		go func(sh int) {
			defer wg.Done()
			cmd := exec.Command(self, "worker", tier, strconv.Itoa(sh), strconv.Itoa(nw))
			cmd.Env = append(os.Environ(), fmt.Sprintf("VERIF_DEADLINE=%d", time.Now().Add(rep.Budget()-rep.Elapsed()).Unix()))
			cmd.Stderr = os.Stderr
			out, err := cmd.StdoutPipe()
			if err != nil {
				report.Harness("%v", err)
			}
			if err := cmd.Start(); err != nil {
				report.Harness("%v", err)
			}
			scn := bufio.NewScanner(out)
			scn.Buffer(make([]byte, 1<<20), 1<<28)
			for scn.Scan() {
				var r scenResult
				if err := json.Unmarshal(scn.Bytes(), &r); err != nil {
					report.Harness("bad worker line: %v", err)
				}
				mu.Lock()
				a := agg[r.Idx]
				if a == nil {
					a = &scenResult{Idx: r.Idx, Outcomes: map[string]int64{}, Expected: r.Expected}
					agg[r.Idx] = a
				}
				a.Execs += r.Execs
				a.Points += r.Points
				a.Preempting += r.Preempting
				if r.MaxPoints > a.MaxPoints {
					a.MaxPoints = r.MaxPoints
				}
				for k, v := range r.Outcomes {
					a.Outcomes[k] += v
				}
				a.Violations = append(a.Violations, r.Violations...)
				a.FreeRun = append(a.FreeRun, r.FreeRun...)
				if r.Harness != "" && harness == "" {
					harness = fmt.Sprintf("scenario %d (%s): %s", r.Idx, sc[r.Idx], r.Harness)
				}
				a.Capped = a.Capped || r.Capped
				mu.Unlock()
			}
			if err := cmd.Wait(); err != nil {
				mu.Lock()
				if harness == "" {
					harness = fmt.Sprintf("worker %d: %v", sh, err)
				}
				mu.Unlock()
			}
		}(sh)
	}
	wg.Wait()
	if harness != "" {
		report.Harness("%s", harness)
	}
	var multi int
	var big []interface{}
	for i, s := range sc {
		a := agg[i]
		if a == nil {
			report.Harness("scenario %d produced no result", i)
		}
		rep.AddStates(a.Execs)
		rep.AddTransitions(a.Points)
		rep.AddNontrivial(a.Preempting)
		if a.Capped {
			rep.Cap("execution cap hit in " + s.String())
		}
		for _, v := range a.Violations {
			cls := "sequential"
			if s.NProcs > 1 {
				cls = "concurrent"
			}
			sig := fmt.Sprintf("%s|%s|%s|%s", s.Kind, keepNames[s.Keep], cls, v.Symptom)
			rep.Violation(sig, map[string]interface{}{"scenario": s, "scenario_index": i, "document": s.Doc.String(), "xml": s.Doc.XML(), "expected": a.Expected, "observed": v.Outcome, "schedule": v.Schedule, "trace": v.Trace})
		}
		for _, f := range a.FreeRun {
			if strings.HasPrefix(f, "free-running extraction with GOMAXPROCS=") {
				// the real package hangs with another number of processors than the
				// explored one: the result depends on GOMAXPROCS
				rep.Violation(fmt.Sprintf("%s|%s|free-running|does-not-return", s.Kind, keepNames[s.Keep]), map[string]interface{}{"scenario": s, "scenario_index": i, "document": s.Doc.String(), "xml": s.Doc.XML(), "observed": f})
				continue
			}
			if f != a.Expected && a.Outcomes[f] == 0 && len(a.Violations) == 0 {
				// the real package, run freely with 1, 2 and 4 processors, returned
				// something else than the least fixpoint (and than every explored
				// outcome): a wrong result of a real run, whatever the explorer saw
				rep.Violation(fmt.Sprintf("%s|%s|free-running|not-least-fixpoint", s.Kind, keepNames[s.Keep]), map[string]interface{}{"scenario": s, "scenario_index": i, "document": s.Doc.String(), "xml": s.Doc.XML(), "expected": a.Expected, "observed": f})
				continue
			}
			if a.Outcomes[f] == 0 && len(a.Violations) == 0 {
				report.Harness("shim conformance: free-running outcome %q of %s was never produced by the explorer (outcomes %v)", f, s, a.Outcomes)
			}
		}
		if len(a.Outcomes) > 1 {
			multi++
		}
		if s.Split > 1 || i%400 == 0 {
			big = append(big, map[string]interface{}{"scenario": s.String(), "executions": a.Execs, "points": a.Points, "max_points": a.MaxPoints, "outcomes": a.Outcomes})
		}
	}
	rep.Set("scenarios_with_more_than_one_outcome", multi)
	rep.Set("scenario_details", big)
	for i := 0; i < len(sc); i += len(sc)/8 + 1 {
		rep.Sample(10, sc[i].String())
	}
	rep.AddEvals(rep.States)
	rep.Finish()
}

func replay(path string) {
	b, err := os.ReadFile(path)
	if err != nil {
		report.Harness("%v", err)
	}
	var f struct {
		Case struct {
			Scenario Scenario
			Schedule []int
		}
	}
	if err := json.Unmarshal(b, &f); err != nil {
		report.Harness("%v", err)
	}
	s := f.Case.Scenario
	runtime.GOMAXPROCS(s.NProcs)
	var full *gosm.Data
	if s.Kind == "filter" {
		full, _ = gosm.ExtractXML(context.Background(), strings.NewReader(s.Doc.XML()), gosm.KeepAll(), true)
		fullSnapshot = dataString(full)
	}
	var o, v string
	x := vrt.Run(f.Case.Schedule, vrt.Options{EnvChoices: s.Kind == "filter", KeepTrace: true}, func() {
		if s.Kind == "filter" {
			o, v = filterOnce(s, full)
		} else {
			o, v = extractOnce(s)
		}
	})
	fmt.Printf("scenario: %s\nforced schedule: %v\ntrace: %s\nscheduler error: %q\nobserved: %s\nexpected (least fixpoint): %s\nviolation: %q\n", s, f.Case.Schedule, strings.Join(x.Trace, " "), x.Err, o, setString(lfp(s.Doc, s.Keep)), v)
	if v != "" || x.Err != "" {
		os.Exit(1)
	}
}

var _ = osm.TypeNode
