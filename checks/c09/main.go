// C09 — projected coordinates agree with proj4js 2.3.12 and with independent
// reference formulas. Engine E1 over the C08 lattice (level "exploration").
package main

import (
	"fmt"
	"math"
	"os"
	"sort"
	"strconv"
	"strings"
	"sync"

	"github.com/ctessum/geom/proj"

	"verif/checks/projlib"
	"verif/mc/enum"
	"verif/mc/report"
)

func try(f func()) (p string) {
	defer func() {
		if r := recover(); r != nil {
			p = fmt.Sprint(r)
		}
	}()
	f()
	return ""
}

func optionClass(o string) string {
	if i := strings.Index(o, "="); i > 0 && (strings.HasPrefix(o, "ellps=") || strings.HasPrefix(o, "datum=")) {
		return o[:i]
	}
	return o
}

func pval(params, key string, def float64) float64 {
	for _, f := range strings.Fields(params) {
		if strings.HasPrefix(f, "+"+key+"=") {
			v, err := strconv.ParseFloat(strings.TrimPrefix(f, "+"+key+"="), 64)
			if err == nil {
				return v
			}
		}
	}
	return def
}

var rep *report.Run

// goEval transforms pts from src to dst with freshly parsed references.
func goEval(src, dst string, pts [][2]float64) ([]*[2]float64, string) {
	out := make([]*[2]float64, len(pts))
	var t proj.Transformer
	var err error
	if p := try(func() {
		var a, b *proj.SR
		a, err = proj.Parse(src)
		if err != nil {
			return
		}
		b, err = proj.Parse(dst)
		if err != nil {
			return
		}
		t, err = a.NewTransform(b)
	}); p != "" || err != nil {
		return out, fmt.Sprint("cannot build transformer: ", p, err)
	}
	for i, pt := range pts {
		if t == nil {
			q := pt
			out[i] = &q
			continue
		}
		var x, y float64
		var e error
		if p := try(func() { x, y, e = t(pt[0], pt[1]) }); p != "" {
			return out, "panic: " + p
		}
		if e == nil && !math.IsNaN(x+y) && !math.IsInf(x+y, 0) {
			out[i] = &[2]float64{x, y}
		}
	}
	return out, ""
}

func main() {
	tier := "quick"
	if len(os.Args) > 1 {
		tier = os.Args[1]
	}
	if tier == "replay" {
		b, _ := os.ReadFile(os.Args[2])
		fmt.Printf("%s\nThe case holds the PROJ.4 definitions, the input point, the value of the port and the reference value.\n", b)
		return
	}
	rep = report.New("C09", tier, "exploration")
	rep.Rule = "E1 lattice (the C08 lattice): (a) every name of the proj4js Ellipsoid / Datum / PrimeMeridian / units tables against the Go tables (both directions); (a') exported fields A, B, Rf, Es, DatumParams, FromGreenwich, ToMeter of every parsed definition against the proj4js object; (b) for every definition and position: own geographic base -> projected, projected -> geographic (at the reference's projected values), WGS84 -> projected when a datum relation is stated, and projected -> projected between consecutive definitions on different datums, each against the vendored proj4js 2.3.12 under node: 0.1 mm projected, 1e-9 deg geographic, compared only where proj4js is finite; (c) own geographic base -> projected against independent formulas (Snyder closed forms for merc / lcc / aea, meridian arc by quadrature for eqdc, Krueger 6th-order series for tmerc / utm) within 5 mm, and WGS84 <-> datum-shifted geographic against one geocentric Helmert chain. Non-trivial = comparisons on definitions with a non-default option."
	rep.Assumptions = []string{"lattice points only", "proj4js evaluated by node on the vendored sources; golden copies are used when node is absent", "definitions without a datum are compared only against their own geographic base (the port performs no ellipsoid change for an unknown datum)"}
	defs := projlib.Lattice(tier == "thorough")
	var nCmp, nontrivial, skipped int64

	// ---- (a) tables
	tabs, tsrc := projlib.Tables()
	rep.Set("tables_source", tsrc)
	{
		gE, gEn := proj.VerifEllipsoids(), proj.VerifEllipsoidNames()
		num := func(v interface{}) float64 {
			switch t := v.(type) {
			case float64:
				return t
			case string:
				f, _ := strconv.ParseFloat(t, 64)
				return f
			}
			return 0
		}
		je := tabs["Ellipsoid"]
		for name, v := range je {
			m := v.(map[string]interface{})
			g, ok := gE[name]
			nCmp++
			if !ok {
				rep.Violation("tables|Ellipsoid|missing-in-port", name)
				continue
			}
			if g[0] != num(m["a"]) || g[1] != num(m["b"]) || g[2] != num(m["rf"]) || gEn[name] != fmt.Sprint(m["ellipseName"]) {
				rep.Violation("tables|Ellipsoid|value-differs", map[string]interface{}{"name": name, "port": g, "proj4js": m})
			}
		}
		for name := range gE {
			if _, ok := je[name]; !ok {
				rep.Violation("tables|Ellipsoid|not-in-proj4js", name)
			}
		}
		gD, gDn := proj.VerifDatums()
		jd := tabs["Datum"]
		for name, v := range jd {
			m := v.(map[string]interface{})
			nCmp++
			if _, grid := m["nadgrids"]; grid && m["towgs84"] == nil {
				if _, ok := gD[name]; !ok {
					continue // grid-shift-only datums are not supported by the port
				}
			}
			g, ok := gD[name]
			if !ok {
				rep.Violation("tables|Datum|missing-in-port", name)
				continue
			}
			var want []float64
			if s, ok := m["towgs84"].(string); ok {
				for _, f := range strings.Split(s, ",") {
					x, _ := strconv.ParseFloat(strings.TrimSpace(f), 64)
					want = append(want, x)
				}
			}
			same := len(want) == len(g)
			for i := range want {
				if same && want[i] != g[i] {
					same = false
				}
			}
			if !same || gDn[name][0] != fmt.Sprint(m["ellipse"]) || gDn[name][1] != fmt.Sprint(m["datumName"]) {
				rep.Violation("tables|Datum|value-differs", map[string]interface{}{"name": name, "port": g, "port_names": gDn[name], "proj4js": m})
			}
		}
		for name := range gD {
			if _, ok := jd[name]; !ok {
				rep.Violation("tables|Datum|not-in-proj4js", name)
			}
		}
		gP := proj.VerifPrimeMeridians()
		for name, v := range tabs["PrimeMeridian"] {
			nCmp++
			if g, ok := gP[name]; !ok || g != num(v) {
				rep.Violation("tables|PrimeMeridian|differs", map[string]interface{}{"name": name, "port": g, "proj4js": v})
			}
		}
		for name := range gP {
			if _, ok := tabs["PrimeMeridian"][name]; !ok {
				rep.Violation("tables|PrimeMeridian|not-in-proj4js", name)
			}
		}
		gU := proj.VerifUnits()
		for name, v := range tabs["units"] {
			nCmp++
			m := v.(map[string]interface{})
			if g, ok := gU[name]; !ok || math.Abs(g-num(m["to_meter"])) > 1e-18 {
				rep.Violation("tables|units|differs", map[string]interface{}{"name": name, "port": g, "proj4js": m})
			}
		}
		for name := range gU {
			if _, ok := tabs["units"][name]; !ok {
				rep.Violation("tables|units|not-in-proj4js", name)
			}
		}
	}

	// ---- (b) phase 1: forward requests
	type plan struct {
		kind string
		di   int
		req  projlib.Req
	}
	var p1 []plan
	for i, d := range defs {
		pts := make([][2]float64, len(d.Pts))
		for k, p := range d.Pts {
			pts[k] = [2]float64{p[0] - d.Pm, p[1]}
		}
		p1 = append(p1, plan{"geo->proj", i, projlib.Req{Src: d.Geo, Dst: d.Proj4, Pts: pts}})
		if d.HasDatum {
			p1 = append(p1, plan{"wgs84->proj", i, projlib.Req{Src: "+proj=longlat +datum=WGS84", Dst: d.Proj4, Pts: d.Pts}})
			p1 = append(p1, plan{"wgs84->geo", i, projlib.Req{Src: "+proj=longlat +datum=WGS84", Dst: d.Geo, Pts: d.Pts}})
		}
		p1 = append(p1, plan{"fields", i, projlib.Req{Src: d.Geo, Dst: d.Proj4, Fields: true}})
	}
	// proj4js has no defaults for omitted +x_0 +y_0 +lat_0 (it yields NaN); the
	// reference is asked about the definition with the PROJ.4 defaults written out
	complete := func(def string) string {
		if strings.Contains(def, "+proj=utm") || strings.Contains(def, "+proj=krovak") || strings.Contains(def, "+proj=longlat") {
			return def
		}
		if !strings.Contains(def, "+x_0=") {
			def += " +x_0=0 +y_0=0"
		}
		if !strings.Contains(def, "+lat_0=") {
			def += " +lat_0=0"
		}
		return def
	}
	reqs := make([]projlib.Req, len(p1))
	for i := range p1 {
		reqs[i] = p1[i].req
		reqs[i].Src, reqs[i].Dst = complete(reqs[i].Src), complete(reqs[i].Dst)
	}
	ref1, rsrc := projlib.Reference("c09-forward-"+tier, reqs)
	rep.Set("reference_source", rsrc)
	// phase 2: inverse at the reference's projected values; cross-datum pairs
	var p2 []plan
	lastDatum := -1
	for i := range p1 {
		if p1[i].kind != "geo->proj" {
			continue
		}
		d := defs[p1[i].di]
		var pts [][2]float64
		for k, q := range ref1[i].Points {
			if math.Abs(p1[i].req.Pts[k][1]) == 90 {
				// the way back from a pole is not compared: Albers' and the equidistant
				// cone's latitude there is the arcsine of a number at 1, where one unit in
				// the last place of the sine moves the answer by 0.1 mm in V8 and Go alike
				continue
			}
			if q != nil {
				pts = append(pts, *q)
			}
		}
		if len(pts) == 0 {
			continue
		}
		p2 = append(p2, plan{"proj->geo", p1[i].di, projlib.Req{Src: d.Proj4, Dst: d.Geo, Pts: pts}})
		if d.Proj == "utm" && strings.Contains(d.Params, "+south") && p1[i].di > 0 && defs[p1[i].di-1].Proj == "utm" && defs[p1[i].di-1].Ellps == d.Ellps && defs[p1[i].di-1].Params+" +south" == d.Params {
			// the same zone on the other hemisphere: northings differ by the false northing
			p2 = append(p2, plan{"proj->proj", p1[i].di, projlib.Req{Src: d.Proj4, Dst: defs[p1[i].di-1].Proj4, Pts: pts[:min(len(pts), 12)]}})
		}
		if d.HasDatum && d.Proj != "utm" && d.Pm == 0 {
			if lastDatum >= 0 && defs[lastDatum].Ellps != d.Ellps {
				p2 = append(p2, plan{"proj->proj", p1[i].di, projlib.Req{Src: d.Proj4, Dst: defs[lastDatum].Proj4, Pts: pts[:min(len(pts), 12)]}})
			}
			lastDatum = p1[i].di
		}
	}
	reqs2 := make([]projlib.Req, len(p2))
	for i := range p2 {
		reqs2[i] = p2[i].req
		reqs2[i].Src, reqs2[i].Dst = complete(reqs2[i].Src), complete(reqs2[i].Dst)
	}
	ref2, _ := projlib.Reference("c09-inverse-"+tier, reqs2)

	var mu sync.Mutex
	compare := func(pl plan, ref projlib.Res) {
		d := defs[pl.di]
		class := fmt.Sprintf("%s|%s|%s", pl.kind, d.Proj, optionClass(d.Option))
		if pl.kind == "fields" {
			var a, b *proj.SR
			var err error
			if p := try(func() {
				a, err = proj.Parse(pl.req.Src)
				if err == nil {
					b, err = proj.Parse(pl.req.Dst)
				}
			}); p != "" || err != nil || len(ref.Fields) != 2 {
				rep.Violation("fields|parse-failed|"+d.Proj, map[string]interface{}{"def": pl.req, "error": fmt.Sprint(p, err)})
				return
			}
			for k, sr := range []*proj.SR{a, b} {
				f := ref.Fields[k]
				def := []string{pl.req.Src, pl.req.Dst}[k]
				bad := func(field string, port, want interface{}) {
					cls := optionClass(d.Option)
					if strings.Contains(def, "+proj=krovak") && (field == "A" || field == "Es" || field == "B" || field == "Rf") {
						cls = "krovak-constants"
					}
					rep.Violation(fmt.Sprintf("fields|%s-differs|%s", field, cls), map[string]interface{}{"definition": def, "port": port, "proj4js": want})
				}
				mu.Lock()
				nCmp++
				mu.Unlock()
				rel := func(x, y float64) bool { return math.Abs(x-y) <= 1e-12*math.Max(1, math.Abs(y)) }
				if !rel(sr.A, f.A) {
					bad("A", sr.A, f.A)
				}
				if !rel(sr.B, f.B) {
					bad("B", sr.B, f.B)
				}
				if f.Rf != nil && !rel(sr.Rf, *f.Rf) {
					bad("Rf", sr.Rf, *f.Rf)
				}
				if math.Abs(sr.Es-f.Es) > 1e-15 {
					bad("Es", sr.Es, f.Es)
				}
				if f.DatumParams != nil {
					same := len(sr.DatumParams) == len(f.DatumParams)
					for i := range f.DatumParams {
						if same && (f.DatumParams[i] == nil || sr.DatumParams[i] != *f.DatumParams[i]) {
							same = false
						}
					}
					if !same {
						var want []float64
						for _, v := range f.DatumParams {
							if v != nil {
								want = append(want, *v)
							}
						}
						bad("DatumParams", sr.DatumParams, want)
					}
				} else if len(sr.DatumParams) != 0 {
					bad("DatumParams", sr.DatumParams, nil)
				}
				wantPM := 0.0
				if f.FromGreenwich != nil {
					wantPM = *f.FromGreenwich
				}
				gotPM := sr.FromGreenwich
				if math.IsNaN(gotPM) {
					gotPM = 0
				}
				if math.Abs(gotPM-wantPM) > 1e-15 {
					bad("FromGreenwich", sr.FromGreenwich, wantPM)
				}
				wantTM := 1.0
				if f.ToMeter != nil {
					wantTM = *f.ToMeter
				}
				if sr.Name != "longlat" && !rel(sr.ToMeter, wantTM) {
					bad("ToMeter", sr.ToMeter, wantTM)
				}
			}
			return
		}
		got, gerr := goEval(pl.req.Src, pl.req.Dst, pl.req.Pts)
		projected := !strings.Contains(pl.req.Dst, "+proj=longlat")
		tm := 1.0
		if projected {
			// unit of the destination
			if strings.Contains(pl.req.Dst, "+units=ft") {
				tm = 0.3048
			} else if strings.Contains(pl.req.Dst, "+units=us-ft") {
				tm = 1200.0 / 3937.0
			}
		}
		if len(ref.Points) != len(pl.req.Pts) {
			report.Harness("reference returned %d points for %d (%s)", len(ref.Points), len(pl.req.Pts), ref.Error)
		}
		for i, want := range ref.Points {
			mu.Lock()
			nCmp++
			if d.Option != "base" {
				nontrivial++
			}
			mu.Unlock()
			if want == nil {
				mu.Lock()
				skipped++
				mu.Unlock()
				continue
			}
			det := func(obs string) map[string]interface{} {
				return map[string]interface{}{"from": pl.req.Src, "to": pl.req.Dst, "point": pl.req.Pts[i], "port": got[i], "proj4js": *want, "observed": obs}
			}
			if got[i] == nil {
				rep.Violation("vs-proj4js|"+class+"|port-fails-where-proj4js-succeeds", det(gerr))
				break
			}
			dx, dy := got[i][0]-want[0], got[i][1]-want[1]
			if projected {
				tol := 1e-4
				if math.Abs(pl.req.Pts[i][1]) == 90 {
					// the far pole of a cone lies 1e12 m and more away: half a unit in
					// the tenth digit there
					tol = math.Max(tol, 1e-10*math.Hypot(want[0], want[1])*tm)
				}
				if math.Hypot(dx, dy)*tm > tol {
					sig := "vs-proj4js|" + class + "|differs-by-more-than-0.1mm"
					if pl.kind == "geo->proj" && d.Option == "sphere" && (d.Proj == "tmerc" || d.Proj == "utm") {
						// closed spherical form (Snyder 8-1, 8-3), without false origin as in the original
						r := math.Pi / 180
						lon0, lat0, k0 := pval(d.Params, "lon_0", 0)*r, pval(d.Params, "lat_0", 0)*r, pval(d.Params, "k", 1)
						if d.Proj == "utm" {
							lon0, lat0, k0 = (6*pval(d.Params, "zone", 1)-183)*r, 0, 0.9996
						}
						a := 6370997.0
						lam, phi := pl.req.Pts[i][0]*r-lon0, pl.req.Pts[i][1]*r
						fx := a * k0 * math.Atanh(math.Cos(phi)*math.Sin(lam))
						fy := a * k0 * (math.Atan2(math.Tan(phi), math.Cos(lam)) - lat0)
						if math.Hypot(got[i][0]-fx, got[i][1]-fy) <= 1e-4 && math.Hypot(want[0]-fx, want[1]-fy) > 1e-4 {
							sig = "vs-proj4js|spherical-transverse-mercator|proj4js-arc-cosine-ill-conditioned|port-matches-closed-form"
						}
					}
					rep.Violation(sig, det(fmt.Sprintf("%.6f m", math.Hypot(dx, dy)*tm)))
					break
				}
			} else {
				if math.Abs(dx) > 180 {
					dx = 360 - math.Abs(dx)
				}
				if math.Abs(dx)*math.Cos(want[1]*math.Pi/180) > 1e-9 || math.Abs(dy) > 1e-9 {
					rep.Violation("vs-proj4js|"+class+"|differs-by-more-than-1e-9deg", det(fmt.Sprintf("%.3g %.3g deg", dx, dy)))
					break
				}
			}
		}
	}
	enum.Parallel(len(p1), rep.Expired, func(i int) { compare(p1[i], ref1[i]) })
	enum.Parallel(len(p2), rep.Expired, func(i int) { compare(p2[i], ref2[i]) })

	// ---- (c) independent formulas, own geographic base -> projected
	var formulaFails []struct {
		d   projlib.Def
		pt  [2]float64
		got [2]float64
		w   [2]float64
	}
	for i, pl := range p1 {
		if pl.kind != "geo->proj" {
			continue
		}
		d := defs[pl.di]
		if d.Proj == "krovak" {
			continue
		}
		sr, err := proj.Parse(d.Proj4)
		if err != nil {
			continue
		}
		el := projlib.Ell{A: sr.A, F: 1 - sr.B/sr.A}
		got, _ := goEval(pl.req.Src, pl.req.Dst, pl.req.Pts)
		r := math.Pi / 180
		lon0 := pval(d.Params, "lon_0", 0) * r
		lat0 := pval(d.Params, "lat_0", 0) * r
		x0, y0 := pval(d.Params, "x_0", 0), pval(d.Params, "y_0", 0)
		for k, pt := range pl.req.Pts {
			if got[k] == nil {
				continue
			}
			lon, lat := pt[0]*r, pt[1]*r
			if dd := math.Abs(pt[0] - pval(d.Params, "lon_0", 0)); math.Abs(dd-180) < 1e-9 {
				// on the projection's antimeridian the sign of the easting is a matter
				// of rounding; such positions are compared with proj4js only
				continue
			}
			if math.Abs(pt[1]) == 90 {
				// poles: compared with proj4js only (the far pole of a conformal cone is at infinity)
				continue
			}
			var x, y float64
			switch d.Proj {
			case "merc":
				k0 := pval(d.Params, "k_0", 1)
				if strings.Contains(d.Params, "lat_ts") {
					k0 = projlib.MercK0(el, pval(d.Params, "lat_ts", 0)*r)
				}
				dl := lon - lon0
				for dl > math.Pi {
					dl -= 2 * math.Pi
				}
				for dl < -math.Pi {
					dl += 2 * math.Pi
				}
				x, y = projlib.MercFwd(el, 0, k0, dl, lat)
			case "lcc":
				l1 := pval(d.Params, "lat_1", 0) * r
				x, y = projlib.LCCFwd(el, l1, pval(d.Params, "lat_2", l1/r)*r, lat0, lon0, lon, lat)
				x, y = x*pval(d.Params, "k_0", 1), y*pval(d.Params, "k_0", 1)
			case "aea":
				l1 := pval(d.Params, "lat_1", 0) * r
				x, y = projlib.AEAFwd(el, l1, pval(d.Params, "lat_2", l1/r)*r, lat0, lon0, lon, lat)
			case "eqdc":
				l1 := pval(d.Params, "lat_1", 0) * r
				x, y = projlib.EQDCFwd(el, l1, pval(d.Params, "lat_2", l1/r)*r, lat0, lon0, lon, lat)
			case "tmerc":
				x, y = projlib.TMFwd(el, lat0, lon0, pval(d.Params, "k", 1), lon, lat)
			case "utm":
				z := pval(d.Params, "zone", 1)
				x0, y0 = 500000, 0
				if strings.Contains(d.Params, "+south") {
					y0 = 10000000
				}
				x, y = projlib.TMFwd(el, 0, (6*z-183)*r, 0.9996, lon, lat)
			}
			x, y = (x+x0)/d.ToMeter, (y+y0)/d.ToMeter
			nCmp++
			if math.Hypot(got[k][0]-x, got[k][1]-y)*d.ToMeter > 0.005 {
				formulaFails = append(formulaFails, struct {
					d   projlib.Def
					pt  [2]float64
					got [2]float64
					w   [2]float64
				}{d, pt, *got[k], [2]float64{x, y}})
				// does the port agree with proj4js here?
				same := ref1[i].Points[k] != nil && math.Hypot(ref1[i].Points[k][0]-got[k][0], ref1[i].Points[k][1]-got[k][1])*d.ToMeter <= 1e-4
				sig := fmt.Sprintf("vs-formulas|%s|%s|differs-by-more-than-5mm", d.Proj, optionClass(d.Option))
				if same {
					// inherited from the original: one class per cause
					cause := d.Proj + "|" + d.Option
					switch {
					case strings.Contains(d.Option, "towgs84-7") && d.Option != "towgs84-7-rotation-only":
						cause = "7-parameter-datum-hop-through-WGS84"
					case d.Option == "sphere" && (d.Proj == "tmerc" || d.Proj == "utm"):
						cause = "spherical-transverse-mercator-ignores-false-origin"
					case strings.HasPrefix(d.Option, "ellps="):
						cause = d.Option + "-meridian-series-truncation"
					}
					sig = "vs-formulas|" + cause + "|identical-in-proj4js-2.3.12"
				}
				rep.Violation(sig, map[string]interface{}{"definition": d.Proj4, "geographic": d.Geo, "position": pt, "port": *got[k], "formula": []float64{x, y}, "difference_m": math.Hypot(got[k][0]-x, got[k][1]-y) * d.ToMeter})
				break
			}
		}
	}
	// Helmert chain: WGS84 -> geographic base with a 3/7-parameter shift
	for i, pl := range p1 {
		if pl.kind != "wgs84->geo" {
			continue
		}
		d := defs[pl.di]
		sr, err := proj.Parse(d.Geo)
		if err != nil || len(sr.DatumParams) == 0 {
			continue
		}
		// the parameters as written (towgs84 or the datum table), independent of the port's scaling
		var prm []float64
		if strings.Contains(d.Ellps, "+towgs84=") {
			for _, f := range strings.Split(strings.Fields(d.Ellps[strings.Index(d.Ellps, "+towgs84=")+9:])[0], ",") {
				v, _ := strconv.ParseFloat(f, 64)
				prm = append(prm, v)
			}
		} else if strings.HasPrefix(d.Option, "datum=") {
			if s, ok := tabs["Datum"][strings.SplitN(strings.TrimPrefix(d.Option, "datum="), "+", 2)[0]].(map[string]interface{})["towgs84"].(string); ok {
				for _, f := range strings.Split(s, ",") {
					v, _ := strconv.ParseFloat(strings.TrimSpace(f), 64)
					prm = append(prm, v)
				}
			}
		}
		if len(prm) == 0 {
			continue
		}
		el := projlib.Ell{A: sr.A, F: 1 - sr.B/sr.A}
		wgs := projlib.Ell{A: 6378137, F: 1 / 298.257223563}
		got, _ := goEval(pl.req.Src, pl.req.Dst, pl.req.Pts)
		for k, pt := range pl.req.Pts {
			if got[k] == nil {
				continue
			}
			// reference: invert "to WGS84" by fixed-point iteration on the full Helmert
			X, Y, Z := projlib.ToGeocentric(wgs, pt[0]*math.Pi/180, pt[1]*math.Pi/180, 0)
			// find local geocentric L with Helmert(L) = (X,Y,Z)
			lx, ly, lz := X, Y, Z
			for it := 0; it < 50; it++ {
				hx, hy, hz := projlib.HelmertToWGS84(prm, lx, ly, lz)
				lx, ly, lz = lx+(X-hx), ly+(Y-hy), lz+(Z-hz)
			}
			lon, lat, _ := projlib.FromGeocentric(el, lx, ly, lz)
			lon, lat = lon*180/math.Pi-d.Pm, lat*180/math.Pi
			nCmp++
			dm := math.Hypot((got[k][0]-lon)*math.Cos(lat*math.Pi/180), got[k][1]-lat) * math.Pi / 180 * 6378137
			if dm > 0.005 {
				same := ref1[i].Points[k] != nil && math.Abs(ref1[i].Points[k][0]-got[k][0]) <= 1e-9 && math.Abs(ref1[i].Points[k][1]-got[k][1]) <= 1e-9
				sig := fmt.Sprintf("vs-formulas|helmert|%s|differs-by-more-than-5mm", optionClass(d.Option))
				if same {
					sig += "|identical-in-proj4js-2.3.12"
				}
				rep.Violation(sig, map[string]interface{}{"from": pl.req.Src, "to": pl.req.Dst, "position": pt, "port": *got[k], "helmert_chain": []float64{lon, lat}, "difference_m": dm})
				break
			}
		}
	}
	sort.Slice(formulaFails, func(i, j int) bool { return formulaFails[i].d.Name < formulaFails[j].d.Name })
	if rep.Expired() {
		rep.Cap("wall budget expired")
	}
	rep.AddStates(int64(len(defs)))
	rep.AddTransitions(nCmp)
	rep.AddEvals(nCmp)
	rep.AddNontrivial(nontrivial)
	rep.AddSkipped(skipped)
	for i := 0; i < len(defs); i += len(defs)/8 + 1 {
		rep.Sample(10, defs[i].Proj4)
	}
	rep.Finish()
}
