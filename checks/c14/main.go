// C14 — Clip returns exactly the parts of a line that lie inside the polygon.
// Engine E1: polygon catalogue (as Polygon, MultiPolygon, *Bounds) x all simple
// open polylines of 2-3 vertices over an offset lattice (and two-member
// multi-line strings), against exact crossing parameters and even-odd
// classification of the pieces.
package main

import (
	"encoding/json"
	"fmt"
	"math"
	"os"
	"sort"
	"sync/atomic"

	"github.com/ctessum/geom"

	"verif/mc/enum"
	"verif/mc/exact"
	"verif/mc/geomgen"
	"verif/mc/report"
)

const scale = 1000

type shp struct {
	Name  string
	Polys [][][][2]int64
	IsBox bool
	Milli bool // vertices given in 1/1000 units
}

func box(x0, y0, x1, y1 int64) [][2]int64 {
	return [][2]int64{{x0, y0}, {x1, y0}, {x1, y1}, {x0, y1}}
}

func catalogue() []shp {
	return []shp{
		{"box[0,6]x[0,6]", [][][][2]int64{{box(0, 0, 6, 6)}}, true, false},
		{"box[2,4]x[0,6]", [][][][2]int64{{box(2, 0, 4, 6)}}, true, false},
		{"box[0,6]x[2,4]", [][][][2]int64{{box(0, 2, 6, 4)}}, true, false},
		{"tri1", [][][][2]int64{{{{0, 0}, {6, 0}, {0, 6}}}}, false, false},
		{"tri2", [][][][2]int64{{{{0, 0}, {6, 2}, {2, 6}}}}, false, false},
		{"L", [][][][2]int64{{{{0, 0}, {6, 0}, {6, 2}, {2, 2}, {2, 6}, {0, 6}}}}, false, false},
		{"C", [][][][2]int64{{{{0, 0}, {6, 0}, {6, 2}, {2, 2}, {2, 4}, {6, 4}, {6, 6}, {0, 6}}}}, false, false},
		{"box-hole", [][][][2]int64{{box(0, 0, 6, 6), box(2, 2, 4, 4)}}, false, false},
		{"box-hole-cw", [][][][2]int64{{box(0, 0, 6, 6), {{2, 2}, {2, 4}, {4, 4}, {4, 2}}}}, false, false},
		{"box-2holes", [][][][2]int64{{box(0, 0, 8, 6), box(1, 1, 3, 3), box(5, 2, 7, 5)}}, false, false},
		{"two-boxes", [][][][2]int64{{box(0, 0, 2, 2)}, {box(4, 4, 6, 6)}}, false, false},
		{"box+box-hole", [][][][2]int64{{box(0, 0, 2, 6)}, {box(4, 0, 8, 6), box(5, 1, 7, 3)}}, false, false},
		{"island-in-hole", [][][][2]int64{{box(0, 0, 8, 8), box(2, 2, 6, 6)}, {box(3, 3, 5, 5)}}, false, false},
		{"pentagon", [][][][2]int64{{{{1, 0}, {5, 0}, {6, 3}, {3, 6}, {0, 3}}}}, false, false},
		// a corridor 6 000 000 long and 0.002 wide (aspect ratio 3e9), in 1/1000 units
		{"corridor", [][][][2]int64{{{{0, 2}, {6000000000, 2}, {6000000000, 4}, {0, 4}}}}, true, true},
		{"closed-spelling", [][][][2]int64{{{{0, 0}, {6, 0}, {6, 6}, {0, 6}, {0, 0}}, {{2, 2}, {4, 2}, {4, 4}, {2, 4}, {2, 2}}}}, false, false},
		// rings that share a vertex (valid: they touch in a point): two holes touching
		// each other, a hole touching the shell, two members touching
		{"holes-touching", [][][][2]int64{{box(0, 0, 6, 6), box(2, 2, 3, 3), box(3, 3, 4, 4)}}, false, false},
		{"hole-touching-shell", [][][][2]int64{{{{0, 0}, {6, 0}, {6, 6}, {0, 6}}, {{0, 0}, {3, 1}, {1, 3}}}}, false, false},
		{"members-touching", [][][][2]int64{{box(0, 0, 3, 3)}, {box(3, 3, 6, 6)}}, false, false},
	}
}

// Case is a replayable case.
type Case struct {
	Shape int
	Cast  string
	Lines [][]exact.Pt // line strings in 1/1000 units
	Rot   bool         // both operands rotated by 30 degrees and scaled by 1.7 (a similarity: lengths scale by 1.7)
	Pow   int          `json:",omitempty"` // both operands scaled exactly by 2^Pow (lengths scale by 2^Pow)
	Far   bool         `json:",omitempty"` // both operands moved (after scaling) by (2^22, 3*2^21)
	Slack float64      `json:",omitempty"` // absolute tolerance for lines whose coordinates are so large that one ulp of them exceeds the usual 1e-9
}

func region(s shp) exact.Region {
	var r exact.Region
	for _, pg := range s.Polys {
		for _, ring := range pg {
			var o []exact.Pt
			for _, v := range ring {
				if s.Milli {
					o = append(o, exact.Pt{X: v[0], Y: v[1]})
				} else {
					o = append(o, exact.Pt{X: v[0] * scale, Y: v[1] * scale})
				}
			}
			r = append(r, o)
		}
	}
	return r
}

func toGeom(s shp) geom.MultiPolygon {
	var mp geom.MultiPolygon
	for _, pg := range s.Polys {
		var g geom.Polygon
		for _, ring := range pg {
			var o geom.Path
			for _, v := range ring {
				if s.Milli {
					o = append(o, geom.Point{X: float64(v[0]) / scale, Y: float64(v[1]) / scale})
				} else {
					o = append(o, geom.Point{X: float64(v[0]), Y: float64(v[1])})
				}
			}
			g = append(g, o)
		}
		mp = append(mp, g)
	}
	return mp
}

func cast(s shp, name string) geom.Polygonal {
	mp := toGeom(s)
	switch name {
	case "Polygon":
		return mp[0]
	case "Bounds":
		return mp[0].Bounds()
	}
	return mp
}

func casts(s shp) []string {
	c := []string{"MultiPolygon"}
	if len(s.Polys) == 1 {
		c = append(c, "Polygon")
	}
	if s.IsBox {
		c = append(c, "Bounds")
	}
	return c
}

func f(p exact.Pt) geom.Point { return geom.Point{X: float64(p.X) / scale, Y: float64(p.Y) / scale} }

const simScale = 1.7

func rot(p geom.Point) geom.Point {
	c, s := 0.8660254037844387*simScale, 0.5*simScale
	return geom.Point{X: c*p.X - s*p.Y + 0.123, Y: s*p.X + c*p.Y - 4.56}
}

func rotGeom(pg geom.Polygonal) geom.Polygonal {
	var mp geom.MultiPolygon
	for _, p := range pg.Polygons() {
		var q geom.Polygon
		for _, r := range p {
			var o geom.Path
			for _, v := range r {
				o = append(o, rot(v))
			}
			q = append(q, o)
		}
		mp = append(mp, q)
	}
	if _, ok := pg.(geom.Polygon); ok {
		return mp[0]
	}
	return mp
}

// generalPosition: no line vertex on the polygon boundary, no polygon vertex
// on the line, hence no collinear overlap.
func generalPosition(r exact.Region, line []exact.Pt) bool {
	for _, ring := range r {
		n := len(ring)
		for i := 0; i < n; i++ {
			a, b := ring[i], ring[(i+1)%n]
			if a == b {
				continue
			}
			for k, v := range line {
				if exact.OnSeg(a, b, v) {
					return false
				}
				if k+1 < len(line) && (exact.OnSeg(v, line[k+1], a) || exact.OnSeg(v, line[k+1], b)) {
					return false
				}
			}
		}
	}
	return true
}

func simpleLine(l []exact.Pt) bool {
	n := len(l) - 1
	for i := 0; i < n; i++ {
		if l[i] == l[i+1] {
			return false
		}
		for j := i + 1; j < n; j++ {
			if j == i+1 {
				if exact.OnSeg(l[i], l[i+1], l[j+1]) || exact.OnSeg(l[j], l[j+1], l[i]) {
					return false
				}
				continue
			}
			if exact.SegsMeet(l[i], l[i+1], l[j], l[j+1]) {
				return false
			}
		}
	}
	return true
}

// insideLength is the reference: total length of the parts of the line inside
// the even-odd region. ok=false when a piece is too short to classify safely.
func insideLength(r exact.Region, fr exact.FRegion, line []exact.Pt, minPiece float64) (float64, bool) {
	total := 0.0
	for k := 0; k+1 < len(line); k++ {
		p, q := line[k], line[k+1]
		ts := []float64{0, 1}
		for _, ring := range r {
			n := len(ring)
			for i := 0; i < n; i++ {
				a, b := ring[i], ring[(i+1)%n]
				if a == b {
					continue
				}
				d1, d2 := exact.Cross(p, q, a), exact.Cross(p, q, b)
				d3, d4 := exact.Cross(a, b, p), exact.Cross(a, b, q)
				if (d1 > 0) != (d2 > 0) && (d3 > 0) != (d4 > 0) && d1 != 0 && d2 != 0 && d3 != 0 && d4 != 0 {
					t := float64(d3) / float64(d3-d4)
					ts = append(ts, t)
				}
			}
		}
		sort.Float64s(ts)
		fp, fq := f(p), f(q)
		segLen := math.Hypot(fq.X-fp.X, fq.Y-fp.Y)
		for i := 0; i+1 < len(ts); i++ {
			tooShort := ts[i+1]-ts[i] < 1e-7
			if minPiece > 0 {
				tooShort = (ts[i+1]-ts[i])*segLen < minPiece
			}
			if tooShort {
				if ts[i+1] != ts[i] {
					return 0, false
				}
				continue
			}
			tm := (ts[i] + ts[i+1]) / 2
			m := exact.FPt{X: fp.X + tm*(fq.X-fp.X), Y: fp.Y + tm*(fq.Y-fp.Y)}
			if exact.InsideF(fr, m) {
				total += (ts[i+1] - ts[i]) * segLen
			}
		}
	}
	return total, true
}

func distToLine(p geom.Point, lines [][]exact.Pt, f func(exact.Pt) geom.Point) float64 {
	d := math.Inf(1)
	for _, l := range lines {
		for k := 0; k+1 < len(l); k++ {
			a, b := f(l[k]), f(l[k+1])
			vx, vy := b.X-a.X, b.Y-a.Y
			wx, wy := p.X-a.X, p.Y-a.Y
			c1, c2 := wx*vx+wy*vy, vx*vx+vy*vy
			var dd float64
			switch {
			case c1 <= 0:
				dd = math.Hypot(wx, wy)
			case c2 <= c1:
				dd = math.Hypot(p.X-b.X, p.Y-b.Y)
			default:
				dd = math.Abs(vx*wy-vy*wx) / math.Sqrt(c2)
			}
			d = math.Min(d, dd)
		}
	}
	return d
}

func distToBoundary(p geom.Point, fr exact.FRegion) float64 {
	d := math.Inf(1)
	for _, ring := range fr {
		n := len(ring)
		for i := 0; i < n; i++ {
			a, b := ring[i], ring[(i+1)%n]
			vx, vy := b.X-a.X, b.Y-a.Y
			wx, wy := p.X-a.X, p.Y-a.Y
			c1, c2 := wx*vx+wy*vy, vx*vx+vy*vy
			var dd float64
			switch {
			case c1 <= 0 || c2 == 0:
				dd = math.Hypot(wx, wy)
			case c2 <= c1:
				dd = math.Hypot(p.X-b.X, p.Y-b.Y)
			default:
				dd = math.Abs(vx*wy-vy*wx) / math.Sqrt(c2)
			}
			d = math.Min(d, dd)
		}
	}
	return d
}

func try(fn func()) (p string) {
	defer func() {
		if r := recover(); r != nil {
			p = fmt.Sprint(r)
		}
	}()
	fn()
	return ""
}

var rep *report.Run
var nClips, nNontrivial, nSkipped int64
var cat = catalogue()

func runCase(c Case) (string, string) {
	s := cat[c.Shape]
	r := region(s)
	fr := exact.ToF(r, scale)
	want := 0.0
	// a multi-line string is simple only if its members do not meet each other
	for a := 0; a < len(c.Lines); a++ {
		for b := a + 1; b < len(c.Lines); b++ {
			for i := 0; i+1 < len(c.Lines[a]); i++ {
				for j := 0; j+1 < len(c.Lines[b]); j++ {
					if exact.SegsMeet(c.Lines[a][i], c.Lines[a][i+1], c.Lines[b][j], c.Lines[b][j+1]) {
						// members chained end to start (b == a+1, the last segment of a and the
						// first of b sharing just that vertex) are a simple multi-line string too
						la, lb := c.Lines[a], c.Lines[b]
						if b == a+1 && i == len(la)-2 && j == 0 && la[len(la)-1] == lb[0] && !exact.OnSeg(la[i], la[i+1], lb[1]) && !exact.OnSeg(lb[0], lb[1], la[i]) {
							continue
						}
						atomic.AddInt64(&nSkipped, 1)
						return "", ""
					}
				}
			}
		}
	}
	for _, l := range c.Lines {
		if !generalPosition(r, l) {
			atomic.AddInt64(&nSkipped, 1)
			return "", ""
		}
		// (pieces shorter than 1e-7 of their segment are not classified; where the
		// coordinates are large or far from the origin the limit is a length)
		minPiece := 0.0
		if c.Slack > 0 {
			minPiece = 0.01
		}
		w, ok := insideLength(r, fr, l, minPiece)
		if !ok {
			atomic.AddInt64(&nSkipped, 1)
			return "", ""
		}
		want += w
	}
	pg := cast(s, c.Cast)
	pt := f
	unit := 1.0 // the image of a unit length: every tolerance is relative to it
	if c.Rot {
		pg = rotGeom(pg)
		pt = func(p exact.Pt) geom.Point { return rot(f(p)) }
		want *= simScale
		unit = simScale
		ffr := make(exact.FRegion, len(fr))
		for i, ring := range fr {
			for _, v := range ring {
				q := rot(geom.Point{X: v.X, Y: v.Y})
				ffr[i] = append(ffr[i], exact.FPt{X: q.X, Y: q.Y})
			}
		}
		fr = ffr
	}
	if c.Pow != 0 {
		k := math.Ldexp(1, c.Pow)
		sc := func(q geom.Point) geom.Point { return geom.Point{X: q.X * k, Y: q.Y * k} }
		switch t := pg.(type) {
		case *geom.Bounds:
			pg = &geom.Bounds{Min: sc(t.Min), Max: sc(t.Max)}
		default:
			var mp geom.MultiPolygon
			for _, p := range pg.Polygons() {
				var q geom.Polygon
				for _, r := range p {
					var o geom.Path
					for _, v := range r {
						o = append(o, sc(v))
					}
					q = append(q, o)
				}
				mp = append(mp, q)
			}
			if _, ok := pg.(geom.Polygon); ok {
				pg = mp[0]
			} else {
				pg = mp
			}
		}
		prev := pt
		pt = func(p exact.Pt) geom.Point { return sc(prev(p)) }
		want *= k
		unit *= k
		ffr := make(exact.FRegion, len(fr))
		for i, ring := range fr {
			for _, v := range ring {
				ffr[i] = append(ffr[i], exact.FPt{X: v.X * k, Y: v.Y * k})
			}
		}
		fr = ffr
	}
	if c.Far {
		tr := func(q geom.Point) geom.Point { return geom.Point{X: q.X + 4194304, Y: q.Y + 6291456} }
		switch t := pg.(type) {
		case *geom.Bounds:
			pg = &geom.Bounds{Min: tr(t.Min), Max: tr(t.Max)}
		default:
			var mp geom.MultiPolygon
			for _, p := range pg.Polygons() {
				var q geom.Polygon
				for _, r := range p {
					var o geom.Path
					for _, v := range r {
						o = append(o, tr(v))
					}
					q = append(q, o)
				}
				mp = append(mp, q)
			}
			if _, ok := pg.(geom.Polygon); ok {
				pg = mp[0]
			} else {
				pg = mp
			}
		}
		prev := pt
		pt = func(p exact.Pt) geom.Point { return tr(prev(p)) }
		ffr := make(exact.FRegion, len(fr))
		for i, ring := range fr {
			for _, v := range ring {
				ffr[i] = append(ffr[i], exact.FPt{X: v.X + 4194304, Y: v.Y + 6291456})
			}
		}
		fr = ffr
	}
	snapshot := fmt.Sprint(pg)
	var recv geom.Linear
	var fullLen float64
	if len(c.Lines) == 1 {
		ls := geom.LineString{}
		for _, p := range c.Lines[0] {
			ls = append(ls, pt(p))
		}
		recv = ls
		fullLen = ls.Length()
	} else {
		ml := geom.MultiLineString{}
		for _, l := range c.Lines {
			ls := geom.LineString{}
			for _, p := range l {
				ls = append(ls, pt(p))
			}
			ml = append(ml, ls)
		}
		recv = ml
		fullLen = ml.Length()
	}
	atomic.AddInt64(&nClips, 1)
	if want > 1e-9 && want < fullLen-1e-9 {
		atomic.AddInt64(&nNontrivial, 1)
	}
	var res geom.Linear
	if p := try(func() { res = recv.Clip(pg) }); p != "" {
		return "panic", p
	}
	if fmt.Sprint(pg) != snapshot {
		return "polygon-argument-modified", fmt.Sprintf("before %s after %v", snapshot, pg)
	}
	out, ok := res.(geom.MultiLineString)
	if !ok {
		return "result-not-MultiLineString", fmt.Sprintf("%T", res)
	}
	got := out.Length()
	empty := len(out) == 0 || got == 0
	if (want < 1e-12*unit) != empty {
		return "emptiness-wrong", fmt.Sprintf("result %v, reference inside length %g", out, want)
	}
	if math.Abs(got-want) > math.Max(c.Slack, 1e-9*math.Max(unit, want)) {
		return "length-differs", fmt.Sprintf("result %v length %.12g, reference %.12g", out, got, want)
	}
	for _, l := range out {
		for _, v := range l {
			if distToLine(v, c.Lines, pt) > math.Max(c.Slack, 1e-9*math.Max(unit, simScale*unit)) {
				return "vertex-off-line", fmt.Sprintf("%v in %v", v, out)
			}
			if !exact.InsideF(fr, exact.FPt{X: v.X, Y: v.Y}) && distToBoundary(v, fr) > math.Max(c.Slack, 1e-9*math.Max(unit, simScale*unit)) {
				return "vertex-outside-polygon", fmt.Sprintf("%v in %v", v, out)
			}
		}
	}
	// memory layout and history: line and polygon with their vertex slices cut
	// from one flat buffer each, clipped twice: the same result, buffers not
	// written, and the first result intact afterwards
	first := fmt.Sprint(out)
	fl, wl := geomgen.FlatBacked(recv.(geom.Geom))
	fp, wp := geomgen.FlatBacked(pg.(geom.Geom))
	for round := 1; round <= 2; round++ {
		var r2 geom.Linear
		if p := try(func() { r2 = fl.(geom.Linear).Clip(fp.(geom.Polygonal)) }); p != "" {
			return "flat-buffer-operands|panic", p
		}
		if w := wl() + wp(); w != "" {
			return "flat-buffer-operands|caller-buffer-written", w
		}
		if s2 := fmt.Sprint(r2); s2 != first {
			return fmt.Sprintf("flat-buffer-operands|round-%d|result-differs", round), fmt.Sprintf("own storage: %s; flat buffers: %s", first, s2)
		}
	}
	if again := fmt.Sprint(out); again != first {
		return "result-changed-by-later-clips", fmt.Sprintf("was %s, now %s", first, again)
	}
	return "", ""
}

func main() {
	tier := "quick"
	if len(os.Args) > 1 {
		tier = os.Args[1]
	}
	if tier == "replay" {
		b, err := os.ReadFile(os.Args[2])
		if err != nil {
			report.Harness("%v", err)
		}
		var fl struct{ Case struct{ Case Case } }
		json.Unmarshal(b, &fl)
		sym, det := runCase(fl.Case.Case)
		fmt.Printf("case %+v\nresult: %q %s\n", fl.Case.Case, sym, det)
		if sym != "" {
			os.Exit(1)
		}
		return
	}
	rep = report.New("C14", tier, "model_checking")
	rep.Rule = "E1: 19 polygonal shapes (rings and members touching in a vertex, a corridor of aspect ratio 3e9, boxes, triangles, L, C, pentagon, holes in both windings and closed spelling, multi-polygons, island in hole) as Polygon / MultiPolygon / *Bounds x every simple open polyline of 2 and 3 vertices over the lattice (i+.37, j+.41), i,j in {-1,1,3,5,7} (thorough: -1..7), plus two-member multi-line strings (apart, and chained end to start); x-monotone zigzag lines of 63..200 vertices; lines 4e10 long through the small shapes and multi-line strings with a member 7e9 long far away (absolute tolerance 1e-3 there); every simple polyline of 4 and 5 vertices over the coarse lattice {-1,3,7}^2 (detours outside the bounding box; 5 vertices against 6 shapes, thorough all); the same pairs again with both operands rotated by 30 degrees and scaled by 1.7 (irrational coordinates, lengths scale by 1.7); a quarter of the pairs again scaled exactly by 2^-20 and 2^40 (every tolerance relative to the scale), another quarter scaled by 2^-10 and moved to (2^22, 3*2^21); pairs not in general position (exact test) or with a piece shorter than 1e-7 are skipped and counted. Oracle: reference inside length from exact crossing tests + even-odd classification of every piece; Length(result) equal (rel 1e-9); every result vertex within 1e-9 of the line and inside or on the polygon; empty iff the reference length is 0; the polygon argument is not modified; the same clip twice more with both operands cut from flat vertex buffers (same result, buffers not written, first result intact); clip sequences on one shared polygon value, also after the value has been moved in place (history). Non-trivial = lines partly inside."
	var lattice []exact.Pt
	step := int64(2)
	if tier == "thorough" {
		step = 1
	}
	for i := int64(-1); i <= 7; i += step {
		for j := int64(-1); j <= 7; j += step {
			lattice = append(lattice, exact.Pt{X: i*scale + 370, Y: j*scale + 410})
		}
	}
	var lines [][]exact.Pt
	for a := range lattice {
		for b := range lattice {
			if a == b {
				continue
			}
			lines = append(lines, []exact.Pt{lattice[a], lattice[b]})
		}
	}
	n2 := len(lines)
	for a := range lattice {
		for b := range lattice {
			for c := range lattice {
				l := []exact.Pt{lattice[a], lattice[b], lattice[c]}
				if a != b && b != c && simpleLine(l) {
					if tier == "thorough" && (a+b+c)%3 != 0 {
						continue // thorough uses the dense lattice; every third triple keeps it in budget
					}
					lines = append(lines, l)
				}
			}
		}
	}
	rep.Set("lines", len(lines))
	enum.Parallel(len(lines), rep.Expired, func(i int) {
		for si, s := range cat {
			for _, ct := range casts(s) {
				c := Case{Shape: si, Cast: ct, Lines: [][]exact.Pt{lines[i]}}
				if sym, det := runCase(c); sym != "" {
					rep.Violation(fmt.Sprintf("LineString.Clip|%s|%s|%s", ct, s.Name, sym), map[string]interface{}{"case": c, "observed": det})
				}
				if ct != "Bounds" && (tier == "thorough" || i%3 == 0) {
					cr := c
					cr.Rot = true
					if sym, det := runCase(cr); sym != "" {
						rep.Violation(fmt.Sprintf("LineString.Clip|%s|%s|rotated|%s", ct, s.Name, sym), map[string]interface{}{"case": cr, "observed": det})
					}
				}
				// coordinates of about 1e-10 (2^-34): the external sweep compares a cross
				// product with 1e-21 times a product of *lengths*, which makes every pair
				// of segments "parallel" below about 1e-8; one known class (see
				// known_findings.json), whatever the symptom
				if i%16 == 1 {
					cp := c
					cp.Pow = -34
					if sym, det := runCase(cp); sym != "" {
						rep.Violation("external:polyclip-go|coordinates-below-1e-8|wrong-result", map[string]interface{}{"case": cp, "symptom": sym, "observed": det})
					}
				}
				// small and far away: scaled by 2^-10 and moved to (2^22, 3*2^21), nine
				// orders of magnitude below the coordinates (every vertex is rounded to
				// 1e-9 there: tolerance 1e-7, pieces below 1e-5 not classified)
				if i%4 == 2 {
					cp := c
					cp.Pow, cp.Far, cp.Slack = -10, true, 1e-7
					if sym, det := runCase(cp); sym != "" {
						rep.Violation(fmt.Sprintf("LineString.Clip|%s|%s|small-and-far|%s", ct, s.Name, sym), map[string]interface{}{"case": cp, "observed": det})
					}
				}
				// exact scalings by 2^-20 and 2^40 (lengths of 1e-6 and 1e12)
				if i%4 == 1 {
					for _, pw := range []int{-20, 40} {
						cp := c
						cp.Pow = pw
						if sym, det := runCase(cp); sym != "" {
							rep.Violation(fmt.Sprintf("LineString.Clip|%s|%s|scaled-2^%d|%s", ct, s.Name, pw, sym), map[string]interface{}{"case": cp, "observed": det})
						}
					}
				}
				// a three-vertex line as two chained members {p, q}, {q, r}
				if len(lines[i]) == 3 && i%3 == 1 {
					c3 := Case{Shape: si, Cast: ct, Lines: [][]exact.Pt{{lines[i][0], lines[i][1]}, {lines[i][1], lines[i][2]}}}
					if sym, det := runCase(c3); sym != "" {
						rep.Violation(fmt.Sprintf("MultiLineString.Clip|%s|%s|chained-members|%s", ct, s.Name, sym), map[string]interface{}{"case": c3, "observed": det})
					}
				}
				// the same polygon value clipped twice in a row (argument reuse)
				if i < n2 && i%5 == 0 {
					c2 := Case{Shape: si, Cast: ct, Lines: [][]exact.Pt{lines[i], lines[(i*7+3)%n2]}}
					if sym, det := runCase(c2); sym != "" {
						rep.Violation(fmt.Sprintf("MultiLineString.Clip|%s|%s|%s", ct, s.Name, sym), map[string]interface{}{"case": c2, "observed": det})
					}
				}
			}
		}
		if i%2003 == 0 {
			rep.Sample(8, fmt.Sprintf("line %v against all shapes/casts", lines[i]))
		}
	})
	// detours: every simple polyline of 4 and 5 vertices over the coarse lattice
	// {-1,3,7}^2 (most of it outside the shapes' bounding boxes): stretches of
	// several segments that stay outside, round a corner and come back
	{
		var l9 []exact.Pt
		for _, i := range []int64{-1, 3, 7} {
			for _, j := range []int64{-1, 3, 7} {
				l9 = append(l9, exact.Pt{X: i*scale + 370, Y: j*scale + 410})
			}
		}
		var long [][]exact.Pt
		for nv := 4; nv <= 5; nv++ {
			total := 1
			for i := 0; i < nv; i++ {
				total *= len(l9)
			}
			for idx := 0; idx < total; idx++ {
				l := make([]exact.Pt, nv)
				t := idx
				ok := true
				for i := range l {
					l[i] = l9[t%len(l9)]
					t /= len(l9)
					if i > 0 && l[i] == l[i-1] {
						ok = false
					}
				}
				if ok && simpleLine(l) {
					long = append(long, l)
				}
			}
		}
		rep.Set("detour_lines", len(long))
		five := map[int]bool{0: true, 1: true, 2: true, 5: true, 7: true, 10: true}
		enum.Parallel(len(long), rep.Expired, func(i int) {
			for si, s := range cat {
				if len(long[i]) == 5 && tier != "thorough" && !five[si] {
					continue
				}
				for _, ct := range casts(s) {
					c := Case{Shape: si, Cast: ct, Lines: [][]exact.Pt{long[i]}}
					if sym, det := runCase(c); sym != "" {
						rep.Violation(fmt.Sprintf("LineString.Clip|%s|%s|detour|%s", ct, s.Name, sym), map[string]interface{}{"case": c, "observed": det})
					}
				}
			}
		})
	}
	// lines against the corridor: along its inside, straight across it, and
	// diagonally across, also rotated by 30 degrees
	for si, sh := range cat {
		if sh.Name != "corridor" {
			continue
		}
		for _, l := range [][]exact.Pt{
			{{X: 1000000, Y: 3}, {X: 5999000000, Y: 3}},
			{{X: 1500000037, Y: -5000}, {X: 1500000037, Y: 9000}},
			{{X: 1000000000, Y: -7000}, {X: 2000000000, Y: 8000}},
			{{X: -5000, Y: 3}, {X: 6000005000, Y: 3}},
		} {
			for _, ct := range casts(sh) {
				for _, rt := range []bool{false, true} {
					if rt && ct == "Bounds" {
						continue
					}
					c := Case{Shape: si, Cast: ct, Lines: [][]exact.Pt{l}, Rot: rt}
					if sym, det := runCase(c); sym != "" {
						rep.Violation(fmt.Sprintf("LineString.Clip|%s|corridor|%s", ct, sym), map[string]interface{}{"case": c, "observed": det})
					}
				}
			}
		}
	}
	// very long lines through the small shapes: 4e10 units from end to end (the
	// piece inside is 1e-10 of the line; one ulp of the end coordinates is 4e-6,
	// hence the absolute tolerance of 1e-3), alone and as the far member of a
	// multi-line string whose other member lies inside the shape
	{
		far := [][]exact.Pt{
			{{X: -20000000000370, Y: 2410}, {X: 20000000000370, Y: 4410}},
			{{X: -20000000000370, Y: 1410}, {X: 3370, Y: 1410}, {X: 20000000000370, Y: 5410}},
		}
		farAway := []exact.Pt{{X: 30000000000370, Y: 100000410}, {X: 37000000000370, Y: 100002410}}
		short := []exact.Pt{{X: 370, Y: 410}, {X: 1370, Y: 1410}}
		for si, sh := range cat {
			if sh.Name == "corridor" {
				continue
			}
			for _, ct := range casts(sh) {
				for _, ls := range [][][]exact.Pt{{far[0]}, {far[1]}, {farAway, short}, {short, farAway}} {
					c := Case{Shape: si, Cast: ct, Lines: ls, Slack: 1e-3}
					if sym, det := runCase(c); sym != "" {
						rep.Violation(fmt.Sprintf("%s.Clip|%s|%s|very-long-line|%s", map[bool]string{true: "LineString", false: "MultiLineString"}[len(ls) == 1], ct, sh.Name, sym), map[string]interface{}{"case": c, "observed": det})
					}
				}
			}
		}
	}
	// long lines: x-monotone zigzags of 64..200 vertices (an implementation may
	// process long lines in runs), full height and inside the unit cells
	{
		var long [][]exact.Pt
		for _, nv := range []int{63, 64, 65, 66, 128, 129, 130, 200} {
			step := int64(8000 / nv)
			for _, amp := range [][2]int64{{-1000 + 410, 7000 + 410}, {2000 + 410, 3000 + 410}} {
				l := make([]exact.Pt, nv)
				for k := range l {
					l[k] = exact.Pt{X: -1000 + 370 + int64(k)*step, Y: amp[k%2]}
				}
				long = append(long, l)
			}
		}
		rep.Set("long_lines", len(long))
		enum.Parallel(len(long), rep.Expired, func(i int) {
			for si, s := range cat {
				for _, ct := range casts(s) {
					c := Case{Shape: si, Cast: ct, Lines: [][]exact.Pt{long[i]}}
					if sym, det := runCase(c); sym != "" {
						rep.Violation(fmt.Sprintf("LineString.Clip|%s|%s|long-line|%s", ct, s.Name, sym), map[string]interface{}{"case": c, "observed": det})
					}
				}
			}
		})
	}
	// sequences of clips on one shared polygon value (history: the argument must stay intact)
	for si, s := range cat {
		for _, ct := range casts(s) {
			pg := cast(s, ct)
			r := region(s)
			fr := exact.ToF(r, scale)
			for i := 0; i < n2; i += 3 {
				if !generalPosition(r, lines[i]) {
					continue
				}
				want, ok := insideLength(r, fr, lines[i], 0)
				if !ok {
					continue
				}
				ls := geom.LineString{f(lines[i][0]), f(lines[i][1])}
				var got float64
				if p := try(func() { got = ls.Clip(pg).Length() }); p != "" {
					rep.Violation(fmt.Sprintf("LineString.Clip|%s|%s|panic-in-sequence", ct, s.Name), p)
					break
				}
				nClips++
				if math.Abs(got-want) > 1e-9*math.Max(1, want) {
					rep.Violation(fmt.Sprintf("LineString.Clip|%s|%s|length-differs-after-earlier-clips-on-the-same-polygon", ct, s.Name), map[string]interface{}{"shape": si, "line": lines[i], "got": got, "want": want, "clips_before": i / 3})
					break
				}
			}
			// history with an in-place edit: the same polygon value is moved by
			// (+2, 0) in place and clipped against again; the answers must be those
			// for the moved polygon
			switch t := pg.(type) {
			case geom.Polygon:
				for a := range t {
					for b := range t[a] {
						t[a][b].X += 2
					}
				}
			case geom.MultiPolygon:
				for _, q := range t {
					for a := range q {
						for b := range q[a] {
							q[a][b].X += 2
						}
					}
				}
			case *geom.Bounds:
				t.Min.X += 2
				t.Max.X += 2
			}
			r2 := make(exact.Region, len(r))
			for a, ring := range r {
				for _, v := range ring {
					r2[a] = append(r2[a], exact.Pt{X: v.X + 2*scale, Y: v.Y})
				}
			}
			fr2 := exact.ToF(r2, scale)
			for i := 1; i < n2; i += 5 {
				if !generalPosition(r2, lines[i]) {
					continue
				}
				want, ok := insideLength(r2, fr2, lines[i], 0)
				if !ok {
					continue
				}
				ls := geom.LineString{f(lines[i][0]), f(lines[i][1])}
				var got float64
				if p := try(func() { got = ls.Clip(pg).Length() }); p != "" {
					rep.Violation(fmt.Sprintf("LineString.Clip|%s|%s|panic-after-in-place-edit", ct, s.Name), p)
					break
				}
				nClips++
				if math.Abs(got-want) > 1e-9*math.Max(1, want) {
					rep.Violation(fmt.Sprintf("LineString.Clip|%s|%s|stale-answer-after-in-place-edit-of-the-polygon", ct, s.Name), map[string]interface{}{"shape": si, "line": lines[i], "got": got, "want": want})
					break
				}
			}
		}
	}
	if rep.Expired() {
		rep.Cap("wall budget expired")
	}
	rep.AddStates(nClips)
	rep.AddTransitions(nClips)
	rep.AddEvals(nClips)
	rep.AddNontrivial(nNontrivial)
	rep.AddSkipped(nSkipped)
	rep.Finish()
}
