// C17 — WKT output is well-formed OGC text that parses back to the same
// geometry. Engine E1 with an independent recursive-descent parser of the OGC
// well-known-text grammar as oracle.
package main

import (
	"encoding/json"
	"fmt"
	"math"
	"os"
	"regexp"
	"strconv"
	"strings"
	"sync/atomic"

	"github.com/ctessum/geom"
	"github.com/ctessum/geom/encoding/wkt"

	"verif/mc/enum"
	"verif/mc/geomgen"
	"verif/mc/report"
)

// Case is one replayable case.
type Case struct {
	Skel  geomgen.Skel
	Rot   int
	Pair  []int
	Many  int  `json:",omitempty"` // > 0: a geometry of the skeleton's kind with this many members (vertices for flat kinds)
	NearN int  `json:",omitempty"` // with Near: the number of ulps (0 = 1)
	Near  bool `json:",omitempty"` // every member of >= 3 vertices gets a copy of its first vertex, X moved by one ulp, appended (an almost closed ring)
}

func build(c Case) geom.Geom {
	i := 0
	pat := geomgen.FinitePatterns
	val := func() float64 {
		var v float64
		if i < len(c.Pair) {
			v = pat[c.Pair[i]]
		} else {
			v = pat[(i+c.Rot)%len(pat)]
		}
		i++
		return v
	}
	if c.Many > 0 {
		pt := func() geom.Point { x := val(); y := val(); return geom.Point{X: x, Y: y} }
		switch c.Skel.Kind {
		case geomgen.KMultiPoint:
			o := make(geom.MultiPoint, c.Many)
			for k := range o {
				o[k] = pt()
			}
			return o
		case geomgen.KLineString:
			o := make(geom.LineString, c.Many)
			for k := range o {
				o[k] = pt()
			}
			return o
		case geomgen.KMultiLineString:
			o := make(geom.MultiLineString, c.Many)
			for k := range o {
				o[k] = geom.LineString{pt(), pt()}
			}
			return o
		case geomgen.KPolygon:
			o := make(geom.Polygon, c.Many)
			for k := range o {
				o[k] = geom.Path{pt(), pt(), pt()}
			}
			return o
		default:
			o := make(geom.MultiPolygon, c.Many)
			for k := range o {
				o[k] = geom.Polygon{{pt(), pt(), pt()}}
			}
			return o
		}
	}
	g := geomgen.Build(c.Skel, func() geom.Point { x := val(); y := val(); return geom.Point{X: x, Y: y} })
	if c.Near {
		cl := func(p []geom.Point) []geom.Point {
			if len(p) >= 3 {
				x := nearUlp(p[0].X)
				if c.NearN > 1 {
					// (16, 32 and 2^20 ulps: values that agree in their upper 32 bits and in their lowest bits)
					x = math.Float64frombits(math.Float64bits(p[0].X) + uint64(c.NearN))
					if math.IsNaN(x) || math.IsInf(x, 0) {
						x = math.Float64frombits(math.Float64bits(p[0].X) - uint64(c.NearN))
					}
				}
				return append(p, geom.Point{X: x, Y: p[0].Y})
			}
			return p
		}
		switch t := g.(type) {
		case geom.LineString:
			g = geom.LineString(cl(t))
		case geom.MultiLineString:
			for i := range t {
				t[i] = cl(t[i])
			}
		case geom.Polygon:
			for i := range t {
				t[i] = cl(t[i])
			}
		case geom.MultiPolygon:
			for i := range t {
				for j := range t[i] {
					t[i][j] = cl(t[i][j])
				}
			}
		}
	}
	return g
}

// ---- independent OGC WKT parser ------------------------------------------------
// <geometry> ::= POINT <point text> | LINESTRING <linestring text> | POLYGON
//   <polygon text> | MULTILINESTRING <multilinestring text> | MULTIPOLYGON ...
// <point text> ::= ( <point> ); <point> ::= <x> <y>
// <linestring text> ::= ( <point> {, <point>}* )
// <polygon text> ::= ( <linestring text> {, <linestring text>}* )
// <multipolygon text> ::= ( <polygon text> {, <polygon text>}* )
// numbers: signed numeric literal, exact or approximate (mantissa E exponent).

var numRe = regexp.MustCompile(`^[-+]?([0-9]+(\.[0-9]*)?|\.[0-9]+)([eE][-+]?[0-9]+)?`)

type parser struct {
	s   string
	pos int
}

func (p *parser) ws() {
	for p.pos < len(p.s) && (p.s[p.pos] == ' ' || p.s[p.pos] == '\t' || p.s[p.pos] == '\n' || p.s[p.pos] == '\r') {
		p.pos++
	}
}

func (p *parser) lit(c byte) error {
	p.ws()
	if p.pos >= len(p.s) || p.s[p.pos] != c {
		return fmt.Errorf("expected %q at offset %d", c, p.pos)
	}
	p.pos++
	return nil
}

func (p *parser) peek() byte {
	p.ws()
	if p.pos >= len(p.s) {
		return 0
	}
	return p.s[p.pos]
}

func (p *parser) num() (float64, error) {
	p.ws()
	m := numRe.FindString(p.s[p.pos:])
	if m == "" {
		return 0, fmt.Errorf("expected a number at offset %d", p.pos)
	}
	p.pos += len(m)
	return strconv.ParseFloat(m, 64)
}

func (p *parser) point() (geom.Point, error) {
	x, err := p.num()
	if err != nil {
		return geom.Point{}, err
	}
	// at least one blank between x and y
	if p.pos >= len(p.s) || p.s[p.pos] != ' ' {
		return geom.Point{}, fmt.Errorf("expected blank between coordinates at offset %d", p.pos)
	}
	y, err := p.num()
	if err != nil {
		return geom.Point{}, err
	}
	return geom.Point{X: x, Y: y}, nil
}

func (p *parser) list(elem func() error) error {
	if err := p.lit('('); err != nil {
		return err
	}
	for {
		if err := elem(); err != nil {
			return err
		}
		if p.peek() == ',' {
			p.pos++
			continue
		}
		return p.lit(')')
	}
}

func (p *parser) points() ([]geom.Point, error) {
	var o []geom.Point
	err := p.list(func() error {
		q, err := p.point()
		o = append(o, q)
		return err
	})
	return o, err
}

func (p *parser) rings() ([]geom.Path, error) {
	var o []geom.Path
	err := p.list(func() error {
		q, err := p.points()
		o = append(o, q)
		return err
	})
	return o, err
}

func parseWKT(s string) (geom.Geom, error) {
	p := &parser{s: s}
	p.ws()
	st := p.pos
	for p.pos < len(s) && ((s[p.pos] >= 'A' && s[p.pos] <= 'Z') || (s[p.pos] >= 'a' && s[p.pos] <= 'z')) {
		p.pos++
	}
	kw := strings.ToUpper(s[st:p.pos])
	var g geom.Geom
	var err error
	switch kw {
	case "POINT":
		var pts []geom.Point
		pts, err = p.points()
		if err == nil && len(pts) != 1 {
			err = fmt.Errorf("POINT with %d positions", len(pts))
		}
		if err == nil {
			g = pts[0]
		}
	case "LINESTRING":
		var pts []geom.Point
		pts, err = p.points()
		g = geom.LineString(pts)
	case "POLYGON":
		var rs []geom.Path
		rs, err = p.rings()
		g = geom.Polygon(rs)
	case "MULTILINESTRING":
		var rs []geom.Path
		rs, err = p.rings()
		ml := make(geom.MultiLineString, len(rs))
		for i, r := range rs {
			ml[i] = geom.LineString(r)
		}
		g = ml
	case "MULTIPOLYGON":
		var mp geom.MultiPolygon
		err = p.list(func() error {
			rs, err := p.rings()
			mp = append(mp, geom.Polygon(rs))
			return err
		})
		g = mp
	default:
		return nil, fmt.Errorf("unknown keyword %q", kw)
	}
	if err != nil {
		return nil, err
	}
	p.ws()
	if p.pos != len(s) {
		return nil, fmt.Errorf("trailing text at offset %d", p.pos)
	}
	return g, nil
}

func try(f func()) (p string) {
	defer func() {
		if r := recover(); r != nil {
			p = fmt.Sprint(r)
		}
	}()
	f()
	return ""
}

func check(c Case) (string, string) {
	g := build(c)
	var enc []byte
	var err error
	if p := try(func() { enc, err = wkt.Encode(g) }); p != "" {
		return "encode-panic", p
	}
	if err != nil {
		return "encode-error", err.Error()
	}
	got, perr := parseWKT(string(enc))
	if perr != nil {
		return "not-well-formed", perr.Error() + ": " + string(enc)
	}
	if d := geomgen.Diff(g, got, true); d != "" {
		return "parses-to-different-geometry", d + ": " + string(enc)
	}
	// memory layout: the geometry with its vertex slices cut from one flat
	// buffer encodes to the same text and is not written to
	if sym, det := geomgen.LayoutCheck(g, func(x geom.Geom) string {
		var o string
		if p := try(func() { b, err := wkt.Encode(x); o = fmt.Sprintf("%s %v", b, err) }); p != "" {
			return "panic: " + p
		}
		return o
	}); sym != "" {
		return "encode|" + sym, det
	}
	// the bytes returned earlier must not change when Encode is called again
	// (history: Encode, Encode, then use the first result)
	saved := string(enc)
	var e2 error
	if p := try(func() { _, e2 = wkt.Encode(otherGeom) }); p == "" && e2 == nil && saved != string(enc) {
		return "returned-bytes-changed-by-later-Encode", fmt.Sprintf("was %s, now %s", saved, enc)
	}
	return "", ""
}

var otherGeom = geom.Polygon{{{X: 123456.5, Y: -2}, {X: 3, Y: 4}, {X: 5, Y: 6.25}, {X: 123456.5, Y: -2}}, {{X: 7, Y: 8}}}

func main() {
	tier := "quick"
	if len(os.Args) > 1 {
		tier = os.Args[1]
	}
	if tier == "replay" {
		b, err := os.ReadFile(os.Args[2])
		if err != nil {
			report.Harness("%v", err)
		}
		var f struct{ Case struct{ Case Case } }
		json.Unmarshal(b, &f)
		sym, det := check(f.Case.Case)
		fmt.Printf("geometry %#v\nresult: %q %s\n", build(f.Case.Case), sym, det)
		if sym != "" {
			os.Exit(1)
		}
		return
	}
	r := report.New("C17", tier, "model_checking")
	r.Rule = "E1: every structure tree of the five WKT-encodable types with 1..3 members and 1..3(4) vertices per member x every rotation of 22 finite float64 patterns, also with every member of >= 3 vertices almost closed (first vertex repeated 1, 16, 32 and 2^20 ulps off) (full product for points, each pattern repeated on consecutive vertices, and every ordered pattern pair alternating between neighbouring vertices in the same ordinate): the text must be accepted by an independent recursive-descent parser of the OGC WKT grammar and parse to the same type, nesting and bit-identical coordinates; the bytes returned by Encode unchanged by later Encode calls (two- and three-call histories); geometries of 63..5000 members / vertices; MultiPoint, GeometryCollection and *Bounds must be rejected with an error. Non-trivial = geometries with >= 2 members."
	cfg := geomgen.Config{MaxMembers: 3, Lens: []int{1, 2, 3}, FlatMax: 3, PolyRings: 2}
	if tier == "thorough" {
		cfg = geomgen.Config{MaxMembers: 3, Lens: []int{1, 2, 3, 4}, FlatMax: 5, PolyRings: 3}
	}
	var skels []geomgen.Skel
	for _, s := range geomgen.Simple(cfg) {
		if s.Kind != geomgen.KBounds && s.Kind != geomgen.KMultiPoint && geomgen.AllMembersNonEmpty(s) {
			skels = append(skels, s)
		}
	}
	r.Set("skeletons", len(skels))
	np := len(geomgen.FinitePatterns)
	// pattern indices of the alternating-neighbour family: -0, 5e-324, 0.1, 1e21,
	// -1.5, 100, 0 and +-MaxFloat64 in the quick tier, all patterns in the thorough tier
	// (thorough: all patterns for geometries of up to 6 vertices)
	altQuick := []int{0, 1, 3, 5, 9, 10, 13, 17, 18}
	var altAll []int
	for i := range geomgen.FinitePatterns {
		altAll = append(altAll, i)
	}
	var n, nontrivial int64
	// sequential history pass (one goroutine, so any sharing between calls is
	// deterministic): Encode(a), Encode(b), Encode(c); every earlier result
	// must still hold its own text afterwards.
	for i := 0; i+2 < len(skels) && i < 600; i += 3 {
		var encs [3][]byte
		var saved [3]string
		ok := true
		for k := 0; k < 3; k++ {
			var err error
			if p := try(func() { encs[k], err = wkt.Encode(build(Case{Skel: skels[i+k], Rot: k})) }); p != "" || err != nil {
				ok = false
				break
			}
			saved[k] = string(encs[k])
		}
		n++
		if !ok {
			continue
		}
		for k := 0; k < 3; k++ {
			if string(encs[k]) != saved[k] {
				r.Violation("returned-bytes-changed-by-later-Encode|sequence", map[string]interface{}{"case": Case{Skel: skels[i+k], Rot: k}, "observed": fmt.Sprintf("was %s, now %s", saved[k], encs[k])})
				break
			}
		}
	}
	enum.Parallel(len(skels), r.Expired, func(i int) {
		s := skels[i]
		run := func(c Case) {
			atomic.AddInt64(&n, 1)
			if len(s.Kids) >= 2 {
				atomic.AddInt64(&nontrivial, 1)
			}
			if sym, det := check(c); sym != "" {
				r.Violation(fmt.Sprintf("%s|%s", sym, s.Kind), map[string]interface{}{"case": c, "skeleton": s.String(), "observed": det})
			}
		}
		if s.NPoints() == 1 {
			for a := 0; a < np; a++ {
				for b := 0; b < np; b++ {
					run(Case{Skel: s, Pair: []int{a, b}})
				}
			}
		}
		for rot := 0; rot < np; rot++ {
			run(Case{Skel: s, Rot: rot})
			run(Case{Skel: s, Rot: rot, Near: true})
			for _, nn := range []int{16, 32, 1 << 20} {
				run(Case{Skel: s, Rot: rot, Near: true, NearN: nn})
			}
		}
		// repeated vertices: every pattern pair (a,b) on all vertices
		for a := 0; a < np; a++ {
			pair := make([]int, 2*s.NPoints())
			for j := range pair {
				pair[j] = (a + j%2) % np
			}
			run(Case{Skel: s, Pair: pair})
		}
		// neighbouring vertices: every ordered pattern pair (a,b) alternating along
		// the vertex list in the same ordinate (x: a,b,a,.. y: b,a,b,..), so
		// that consecutive vertices differ only in, e.g., the sign of a zero
		if s.NPoints() >= 2 {
			altPatterns := altQuick
			if tier == "thorough" && s.NPoints() <= 6 {
				altPatterns = altAll
			}
			for _, a := range altPatterns {
				for _, b := range altPatterns {
					pair := make([]int, 2*s.NPoints())
					for j := range pair {
						if (j/2+j%2)%2 == 0 {
							pair[j] = a
						} else {
							pair[j] = b
						}
					}
					run(Case{Skel: s, Pair: pair})
				}
			}
		}
		if i%40 == 0 {
			var enc []byte
			if p := try(func() { enc, _ = wkt.Encode(build(Case{Skel: s, Rot: i % np})) }); p != "" {
				r.Violation("encode-panic|sample", p)
			}
			r.Sample(10, string(enc))
		}
	})
	for _, g := range []geom.Geom{geom.MultiPoint{{X: 1, Y: 2}}, geom.GeometryCollection{geom.Point{X: 1, Y: 2}}, &geom.Bounds{Min: geom.Point{X: 0, Y: 0}, Max: geom.Point{X: 1, Y: 1}}} {
		var err error
		var enc []byte
		if p := try(func() { enc, err = wkt.Encode(g) }); p != "" {
			r.Violation(fmt.Sprintf("unsupported-type-panic|%T", g), p)
		} else if err == nil {
			r.Violation(fmt.Sprintf("unsupported-type-accepted|%T", g), string(enc))
		}
		n++
	}
	_ = math.Pi
	// many members: counts around 64 and beyond (a decoder or encoder may switch
	// strategy with the size)
	for _, kind := range []geomgen.Kind{geomgen.KLineString, geomgen.KMultiLineString, geomgen.KPolygon, geomgen.KMultiPolygon} {
		for _, sz := range []int{63, 64, 65, 100, 257, 1000, 4095, 4096, 4097, 5000} {
			c := Case{Skel: geomgen.Skel{Kind: kind}, Rot: sz % 19, Many: sz}
			n++
			nontrivial++
			if sym, det := check(c); sym != "" {
				if len(det) > 300 {
					det = det[:300]
				}
				r.Violation(fmt.Sprintf("%s|%s|many-members", sym, kind), map[string]interface{}{"case": c, "observed": det})
			}
		}
	}
	if r.Expired() {
		r.Cap("wall budget expired")
	}
	r.AddStates(n)
	r.AddTransitions(n * 2)
	r.AddEvals(n)
	r.AddNontrivial(nontrivial)
	r.Finish()
}

// nearUlp is the float64 next to v (upwards, except at the top of the range).
func nearUlp(v float64) float64 {
	if v == math.MaxFloat64 {
		return math.Nextafter(v, 0)
	}
	return math.Nextafter(v, math.Inf(1))
}
