#!/bin/bash
# MANIFEST.setup_cmd: build every check once so that the Go build cache is warm.
# Everything is built from files on disk; no network.
export GOFLAGS=-mod=mod GOPROXY=off GOSUMDB=off GOTOOLCHAIN=local
cd "$(dirname "$0")" || exit 1
mkdir -p .build evidence replay
rc=0
go build ./mc/... ./instr/... 2>&1 || rc=1
for d in checks/*/; do
  lc=$(basename "$d")
  ov=()
  if [ -x "$d/overlay.sh" ]; then
    "$d/overlay.sh" ".build/$lc-overlay.json" > ".build/$lc-overlay.log" 2>&1 || { cat ".build/$lc-overlay.log"; rc=1; continue; }
    ov=(-overlay ".build/$lc-overlay.json")
  fi
  go build -tags verif "${ov[@]}" -o ".build/$lc" "./$d" || rc=1
done
exit $rc
