#!/bin/bash
# MANIFEST.setup_cmd: build every check once (through the same path the checks
# use, overlays included) so that the Go build cache is warm. Everything is
# built from files on disk; no network.
export GOFLAGS=-mod=mod GOPROXY=off GOSUMDB=off GOTOOLCHAIN=local
cd "$(dirname "$0")" || exit 1
mkdir -p .build evidence replay
rc=0
go build ./mc/... ./instr/... 2>&1 || rc=1
for d in checks/c[0-9][0-9]/; do
  id=$(basename "$d" | tr 'a-z' 'A-Z')
  bin/vcheck "$id" build || rc=1
done
exit $rc
