#!/bin/bash
# seed_run.sh <seed-name> <ID> [tier]  — applies seeded/<name>/patch.diff to /repo, runs the check, reverts.
# Prints DETECTED / MISSED and the VIOLATION lines.
N="$1"; ID="$2"; TIER="${3:-quick}"
cd /verif || exit 3
git -C /repo diff --quiet || { echo "/repo is dirty"; exit 3; }
git -C /repo apply "/verif/seeded/$N/patch.diff" || { echo "patch does not apply"; exit 3; }
out=$(VERIF_BUDGET_S=${VERIF_BUDGET_S:-300} bin/vcheck "$ID" "$TIER" 2>&1); rc=$?
git -C /repo checkout -- . ; git -C /repo status --short | grep -v '^??' 
cp "evidence/$ID.json" "/tmp/evidence-$N-$ID.json" 2>/dev/null; git checkout -- "evidence/$ID.json" 2>/dev/null
echo "$out" | grep -E 'VIOLATION|HARNESS|KNOWN' | head -5
if [ $rc -eq 1 ]; then echo "DETECTED $N by $ID $TIER"; elif [ $rc -eq 0 ]; then echo "MISSED $N by $ID $TIER"; else echo "ERROR rc=$rc"; echo "$out" | tail -5; fi
