#!/bin/bash
# Free-running -race pass for C18 (supporting evidence only).
export GOFLAGS=-mod=mod GOPROXY=off GOSUMDB=off GOTOOLCHAIN=local
cd "$(dirname "$0")/.." || exit 3
go run -race ./checks/c18race "${1:-300}"
