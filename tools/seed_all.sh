#!/bin/bash
# Runs every seeded change against the quick check of its property on the
# current /repo HEAD (apply, run, undo) and writes seeded/RESULTS.txt.
cd /verif || exit 3
: > seeded/RESULTS.txt
for d in seeded/*/; do
  n=$(basename "$d")
  p=$(python3 -c "import json;print(json.load(open('$d/meta.json'))['property'])")
  if ! git -C /repo apply --check "/verif/$d/patch.diff" 2>/dev/null; then echo "$n $p PATCH-DOES-NOT-APPLY" | tee -a seeded/RESULTS.txt; continue; fi
  r=$(tools/seed_run.sh "$n" "$p" 2>&1 | grep -E '^(DETECTED|MISSED|ERROR)')
  echo "$n $p $r" | tee -a seeded/RESULTS.txt
done
