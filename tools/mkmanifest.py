#!/usr/bin/env python3
"""Generates MANIFEST.json from the table below (one row per claimed property)."""
import json, os
ROOT = os.path.dirname(os.path.dirname(os.path.abspath(__file__)))
MC = "model_checking"
checks = [
 # id, level, engine, technique, text, note, design_ref
 ("C01", MC, "E1",
  "bounded-exhaustive enumeration of operand catalogue^2 x translations x type casts x 4 operations on the real code vs exact even-odd membership of margin-checked lattice points and slab-decomposition areas",
  "Every pair of catalogue operands (boxes, triangles, L, C, pentagon, holes, multi-polygons, island in hole; both windings) under every translation of the offset grid, in every receiver/argument type combination and all four operations, is executed; the result's even-odd region must contain exactly the lattice points the boolean combination contains and have exactly the true area; rings closed; empty only for zero true area.",
  "Trusts mc/exact (integer predicates, float slab decomposition on exactly representable inputs). Shapes beyond the catalogue (which includes n-gons of 64..100 vertices, a U-shaped hole, mixed ring closure, flat-buffer operands and exact scalings by 2^-20 / 2^30) and degenerate (touching) pairs are outside; the latter by the property itself. Two classes of wrong results of the external sweep module are listed in known_findings.json.", "4/C01"),
 ("C02", MC, "E1",
  "bounded-exhaustive enumeration of all small-grid rings / two-ring polygons / two-member multi-polygons / boxes x the full half-integer query grid on the real Within vs an integer-arithmetic oracle; affine images for points with exactly verified margin",
  "Every ring of 3-4 vertices over {0..3}^2 (repeated vertices, self-intersections, closed and unclosed), every two-ring polygon and two-member multi-polygon over the 504 triangles of {0..2}^2, every box, at every half-integer grid point; the compound receivers over all short vertex lists. Exact because all coordinates are small (half-)integers.",
  "Trusts the 30-line integer classifier in checks/c02. Also rings of 64..200 vertices, the aspect-ratio-1e9 lattice, exact scalings by 2^665 / 2^-665 and one polygon value rewritten in place; other coordinate values are outside the bound.", "4/C02"),
 ("C03", MC, "E1",
  "bounded-exhaustive enumeration of the full reversal x rotation x closing orbit of a catalogue of valid (multi-)polygons, and of all short line strings x query points, on the real code vs exact integer arithmetic",
  "For 7 shells x all valid hole subsets the complete orbit of every per-ring reversal, start rotation and closed/unclosed spelling is evaluated for Area, the alternately wound ones for Polygon.Centroid/op.Area/op.Centroid, every closed spelling for MultiPolygon.Centroid; all line strings of <= 4 points on a 3x3 grid x 49 query points for Length/Distance; Buffer over radius x segments x centre.",
  "Trusts the integer shoelace/centroid sums in checks/c03; also a 64-gon and a 100-gon with a hole, three affine images, an integer translation by 1e9, flat-buffer layouts and a value rewritten in place; other shapes are outside the bound.", "4/C03"),
 ("C04", MC, "E1",
  "bounded-exhaustive enumeration of structure trees x coordinate substitutions and of all box pairs/triples on the real code vs an independent traversal / interval algebra",
  "Every structure tree of the eight types within the stated member/length/depth bounds, with every single (quick) or single+double (thorough) substitution of -0/+Inf/-Inf, and every pair/triple of lattice boxes incl. the empty box is executed on the real package and compared with an independent reference; complete within the bound, silent beyond it.",
  "Trusts the 40-line reference traversal and interval algebra in checks/c04; The box lattice includes the extended reals {-Inf,-0,1,+Inf}; NaN and inverted boxes are outside the alphabet.", "4/C04"),
 ("C05", MC, "E1",
  "bounded-exhaustive enumeration of structure trees x 64-bit pattern rotations x byte orders (per nested element on the decode side) on the real codec vs an independent OGC WKB serializer",
  "Every structure tree of the seven encodable types within the member/length/depth bounds, with every rotation of twelve 64-bit patterns (NaN payloads, signed zero, subnormals) in both byte orders, is encoded by the real code and compared byte for byte with an independent serializer; decoded back bit-exactly; every per-element byte-order assignment is decoded; hex in both letter cases.",
  "Trusts mc/wkbref (independent 100-line serializer written from the OGC layout). Also members of up to 70000 vertices, 31..70000 members, collection chains 200 deep and call histories; other bit patterns are outside the bound.", "4/C05"),
 ("C06", MC, "E1",
  "bounded-exhaustive enumeration of structure trees x finite float patterns on the real GeoJSON codec vs an independent structural check of the JSON text",
  "Every tree of the six types (1..3 members, first non-empty) with every rotation of 22 finite float64 patterns is encoded, the text re-read with json.Number and checked for exact RFC 7946 nesting and [x,y] literals, and decoded back bit-exactly; every single non-finite substitution must be rejected.",
  "Trusts encoding/json's tokenizer for re-reading the text and strconv.ParseFloat.", "4/C06"),
 ("C13", MC, "E1",
  "bounded-exhaustive enumeration of all vertex sequences over a general-position point set x tolerances on the real Simplify in isolated workers (termination is part of the property) vs exact integer simplicity and distance oracles",
  "Every vertex sequence of length 0..6 (thorough over 16 points), every injective sequence of length 7, scaled copies (1e-3, 1e-5, 2^80), a sliver set, a witness set for two-step back-offs and long lines of up to 1000 vertices over a point set with no three collinear points (verified exactly), repetitions allowed, x six tolerances is simplified by the real code in a worker with an address-space limit; termination, subsequence, endpoint, tolerance (existence of an embedding), exact simplicity preservation, input immutability and member independence are checked for every call.",
  "Trusts the integer segment-intersection test in checks/c13; a worker silent for 60 s or dead counts as non-termination of the announced case.", "4/C13"),
 ("C14", MC, "E1",
  "bounded-exhaustive enumeration of polygon catalogue x type casts x all simple 2-3-vertex polylines of an offset lattice (and two-member multi-line strings, and clip sequences on one shared polygon value) on the real Clip vs exact crossing parameters and even-odd classification",
  "Every simple open polyline of 2-3 vertices over the offset lattice is clipped against each of 15 shapes in each applicable type; the clipped length must equal the reference inside length, every result vertex must lie on the line and in the polygon, emptiness must match, and the polygon argument must be unchanged (also across sequences of clips on the same value).",
  "Trusts mc/exact predicates and float evaluation of crossing parameters on exactly representable inputs; pairs not in general position are skipped by an exact test.", "4/C14"),
 ("C15", MC, "E1",
  "bounded-exhaustive enumeration of derived geometry pairs (perturbation patterns, all member permutations, all ring rotations, every single displacement, deletion, duplication, reversal, type change) on the real Similar vs the truth table of the statement, both directions",
  "For 37 base geometries of all eight types (slivers, duplicate members, members sharing one bounding box, flat boxes, 33..64 members, collections nested 100 deep, a self-touching ring), two tolerances and a far-from-origin copy with tolerance 1e-9 every derived geometry of the listed kinds is compared in both directions; the expected value follows from the statement alone.",
  "Catalogue members are >= 90 apart so matching is unambiguous; larger geometries are outside the bound.", "4/C15"),
 ("C16", MC, "E1",
  "bounded-exhaustive enumeration of record sequences x shapes x coordinate patterns x attribute edge values x both APIs, each written by the real Encoder and read back by the real Decoder",
  "Every shape with 1..3 parts x 1..3 vertices of the six writable geometry kinds, with every rotation of 22 finite coordinate patterns, as single records, ordered pairs, triples and the empty file, with integer / string / float edge values, through NewEncoder/Encode/DecodeRow (tags and names in different letter case) and NewEncoderFromFields/EncodeFields/DecodeRowFields; order, count, bit-identical coordinates, closing of rings, box rectangles and attribute values are compared.",
  "Files are written to a private directory under /dev/shm (or TMPDIR). Null shapes and Z/M types are outside the alphabet. One known finding (blank-trimmed strings) is listed in known_findings.json.", "4/C16"),
 ("C17", MC, "E1",
  "bounded-exhaustive enumeration of structure trees x finite float patterns on the real WKT encoder vs an independent recursive-descent OGC WKT parser",
  "Every tree of the five types (1..3 members, 1..3 vertices) with every rotation of 22 finite float64 patterns, incl. repeated vertices, is encoded and the text parsed by an independent parser of the OGC grammar to a bit-identical geometry; unsupported types must be rejected.",
  "Trusts the 150-line parser in checks/c17 and strconv.ParseFloat.", "4/C17"),
 ("C07", "fault_enumeration", "E4",
  "exhaustive single-fault enumeration (every prefix, bit flip, count/type/order substitution, nesting depth; JSON value grammar) over all valid encodings of a bounded corpus, executed in isolated single-goroutine workers with exact allocation accounting",
  "Every single fault of the listed kinds applied to every valid WKB/hex/GeoJSON encoding of the bounded structure-tree corpus, plus all byte strings of length <= 2, all headers, inflated nine-byte messages, deep nestings and a bounded JSON value grammar, is decoded by the real code; no panic, geometry xor error, allocation <= 256*len+64KiB measured exactly, success implies a re-encode/decode fixed point. Complete for single faults over the corpus; multi-fault and unrelated inputs are outside.",
  "Trusts runtime.MemStats.TotalAlloc deltas in a GOMAXPROCS=1 worker; a worker that dies or is silent for 90 s is attributed to the announced case.", "4/C07"),
 ("C08", "exploration", "E1",
  "exhaustive enumeration of a finite configuration x position lattice (projection parameterisations x ellipsoid / datum / unit / prime-meridian options x positions spanning the usable region) on the real proj package; round trips judged against the tolerances of the statement, excesses classified by step-wise comparison with the vendored proj4js under node",
  "Every definition of the lattice (all 120 UTM zone/hemisphere values, six standard-parallel pairs per conic, every built-in ellipsoid and datum, spheres, feet, prime meridians, omitted optional parameters) is round-tripped at every lattice position from its own geographic base and from WGS84; complete over the lattice, silent between its points, which is all bounded enumeration can give for a numerical property over a continuum.",
  "Excesses whose every step agrees with proj4js 2.3.12 to 0.1 mm are inherited behaviour (known findings); the reference runs under node with committed golden values as fallback.", "4/C08"),
 ("C09", "exploration", "E1",
  "exhaustive enumeration of the C08 lattice on the real proj package against (a) the proj4js constant tables, (b) the vendored proj4js 2.3.12 evaluated under node for every definition x position x direction (incl. cross-datum projected pairs), (c) independently implemented Snyder / Krueger / Helmert reference formulas",
  "Every table name, the exported fields of every lattice definition, and every lattice transformation (geographic base <-> projected, WGS84 -> projected / geographic, projected -> projected across datums) are compared with proj4js (0.1 mm / 1e-9 deg) and the forward projections with independent formulas (5 mm); complete over the lattice, silent between its points.",
  "proj4js runs under node on the sources vendored in the repository (golden copies in ref/golden when node is absent); six classes of inherited or reference-side behaviour are listed as known findings.", "4/C09"),
 ("C10", MC, "E2+E1",
  "stateless exhaustive enumeration of all Build/Call operation sequences to a depth over spatial references parsed once per sequence (each call compared with a freshly built transformer), and bounded-exhaustive enumeration of structure trees x failing transformers for Geom.Transform",
  "Every sequence of up to 4 (5) NewTransform / transformer-call operations over 5 (7) spatial references (7- and 3-parameter datums needing the WGS84 hop, the registered globals, non-default axis orders, utm, krovak) is executed on shared SR objects and every call compared with a fresh transformer; every structure tree of the eight types is transformed with nil, an affine map and a transformer failing on each k-th call.",
  "No state deduplication (closure-captured variables cannot be fingerprinted): the search is plain enumeration of histories; longer histories and other reference pairs are outside.", "4/C10"),
 ("C11", MC, "E2",
  "explicit-state BFS over the real R-tree (deep clone per transition, canonical-state dedup) with structural invariants and brute-force SearchIntersect oracle in every state",
  "All insert/delete histories over a 6-8 object alphabet are explored to closure of the reachable state space for branching (2,4) and (2,5) (depth-bounded for (3,6)); neighbourhoods of height-3 seed trees to depth 5; every distinct state is checked against a multiset model with 104 query boxes and the balance/envelope/fan-out invariants read through an injected read-only walk.",
  "Trusts the injected clone/snapshot helper (overlays/rtree) and the canonical key; objects limited to the 16-element alphabet on a 4x4 grid.", "4/C11"),
 ("C12", MC, "E2",
  "explicit-state BFS over the real R-tree; in every reachable state all (query point, k) nearest-neighbour queries vs brute-force k smallest distances",
  "Same reachable state sets as C11; in every non-empty state NearestNeighbor and NearestNeighbors(k) for all grid query points and all k=1..size+1 are compared by distance with a brute-force scan of the model multiset.",
  "Same trusted base as C11; ties compared by distance (1e-12), not identity.", "4/C11-C12"),
 ("C18", MC, "E3",
  "stateless model checking of the source-instrumented encoding/osm package under a controlled cooperative scheduler: DFS over all schedules within a preemption / deviation bound, each execution compared with a sequential least-fixpoint model",
  "Every schedule of the real extract() worker pool with at most 1 (quick) / 2 (thorough) preemptions, respectively 2 / 3 deviations from the canonical scheduler, on every small document order (sequential tier, all element orders) and on ten sharp documents with 2 and 3 workers x three keep functions is executed and must yield exactly the least fixpoint and pass Check; Filter is explored over map-iteration orders. Complete within those bounds; larger documents, more workers and more preemptions are outside.",
  "Trusts the shim's model of Mutex/RWMutex (writer preference)/buffered channel/errgroup (mc/vrt) and the 1:1 rewrite by instr/; the free-running package's outcome must be among the explored outcomes; data races below lock granularity are not modelled.", "3"),
 ("C19", MC, "E2+E3",
  "explicit-state BFS over AddLink histories of the real Network (successor = replay on a fresh instance, dedup by link set + node-id assignment) with a Floyd-Warshall oracle for all query pairs in every state; map-iteration orders of the instrumented package explored as environment choices",
  "All histories of up to 5 (7) AddLink calls over 10 candidate links between 5 nodes are explored; in every distinct state and for both minimisation options all 49 ordered query pairs are answered by the real ShortestRoute and compared with Floyd-Warshall (minimal cost, valid chain, totals, emptiness); for small states every query is repeated under every map-iteration order with at most one deviation.",
  "Dedup assumes the R-tree's answer to a unique-nearest query does not depend on insertion order (queries with tied nearest nodes are skipped); networks with more than 5 nodes or parallel links are outside.", "4/C19"),
 ("C20", "exploration", "E1",
  "exhaustive enumeration of abstract CRS records rendered independently as PROJ.4 and OGC WKT x lattice positions, and of all ordered pairs of a pool of one-field-apart references, on the real parsers and transformers",
  "Every record of the lattice (five projections incl. both WKT parameter spellings, geographic, 4-6 spheroids, TOWGS84 none/3/7, three linear units) is rendered in both notations and the resulting transformers compared to 1 micrometre at every lattice position; registered names and aliases against their definitions; Equal <=> nil transformer and 'nil only for coinciding references' for all 34^2 ordered pairs; .prj through the shapefile decoder.",
  "WKT is rendered with neutral DATUM/GEOGCS names (a recognised datum name makes the table values override the TOWGS84 clause by design); lattice points only.", "4/C20"),
]
not_applicable = [
]
man = {
 "version": 1,
 "setup_cmd": "./setup.sh",
 "hooks": {
  "guard": "verif",
  "enable": "go build -overlay .build/<check>-overlay.json (files generated by checks/<check>/overlay.sh are injected into / replace files of geom packages at build time; /repo itself carries no hook code)",
  "baseline_off_cmd": "cd /repo && go test -mod=mod -vet=off -count=1 $(go list -mod=mod ./... | grep -v /carto)",
  "source_commits": [],
  "add_only": True,
 },
 "engines": [
  {"name": "E1", "path": "mc/enum, mc/geomgen, mc/exact", "kind_free_text": "bounded-exhaustive input enumeration on the real API against a reference model"},
  {"name": "E2", "path": "mc/bfs", "kind_free_text": "explicit-state breadth-first search over real objects with canonical-state deduplication"},
  {"name": "E2+E1", "path": "checks/c10", "kind_free_text": "stateless enumeration of operation histories plus bounded-exhaustive input enumeration"},
  {"name": "E2+E3", "path": "checks/c19, mc/sched, mc/vrt, instr", "kind_free_text": "explicit-state search over operation histories combined with environment-choice exploration"},
  {"name": "E3", "path": "mc/sched, mc/vrt, instr", "kind_free_text": "controlled cooperative scheduler + preemption-bounded DFS over source-instrumented packages"},
  {"name": "E4", "path": "mc/fault", "kind_free_text": "exhaustive single-fault enumeration over valid encodings with isolated worker"},
 ],
 "checks": [],
 "not_applicable": [{"property_id": i, "reason": r} for i, r in not_applicable],
 "notes": "All checks: bin/vcheck <ID> quick|thorough|replay <file>. Exit 0 = held, 1 = VIOLATION line, 3 = HARNESS-ERROR (bug in /verif).",
}
serves = {}
for (i, lvl, eng, tech, text, note, ref) in checks:
    serves.setdefault(eng, []).append(i)
    man["checks"].append({
     "property_id": i,
     "quick_cmd": f"bin/vcheck {i} quick",
     "thorough_cmd": f"bin/vcheck {i} thorough",
     "evidence_file": f"/verif/evidence/{i}.json",
     "replay_cmd_template": f"bin/vcheck {i} replay {{path}}",
     "engine": eng,
     "level_claimed": {"category": lvl, "text": text, "design_ref": "DESIGN.md §" + ref},
     "level_note": note,
     "technique": tech,
    })
for e in man["engines"]:
    e["serves_properties"] = sorted(serves.get(e["name"], []))
claimed = {c[0] for c in checks}
na = {n[0] for n in not_applicable}
allp = [json.loads(l)["id"] for l in open(os.path.join(ROOT, "properties.jsonl"))]
pending = [p for p in allp if p not in claimed and p not in na]
for p in pending:
    man["not_applicable"].append({"property_id": p, "reason": "check not built yet (work in progress; see DESIGN.md §4 for the planned bounded-exhaustive check)"})
json.dump(man, open(os.path.join(ROOT, "MANIFEST.json"), "w"), indent=1)
print("claimed", sorted(claimed), "pending", pending)
