#!/bin/bash
# Runs the quick tier of every check on /repo's current tree (refreshing the
# evidence files) and prints one summary line per check.
cd /verif || exit 3
rc_all=0
for d in checks/c[0-9][0-9]/; do
  id=$(basename "$d" | tr a-z A-Z)
  out=$(bin/vcheck "$id" quick 2>&1); rc=$?
  echo "$id rc=$rc $(echo "$out" | grep "^$id quick" | cut -c1-160)"
  echo "$out" | grep -E '^VIOLATION|HARNESS' | head -5
  [ $rc -ne 0 ] && rc_all=1
done
exit $rc_all
