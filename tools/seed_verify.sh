#!/bin/bash
# seed_verify.sh <mutant-dir> <seed-name> <PROP> <demo-kind>
#   demo-kind: prog              -> <mutant-dir>/demo/main.go, run as a program
#              test:<pkgdir>[:tags] -> <mutant-dir>/demo_test.go copied into <pkgdir>
#              ext               -> <mutant-dir>/demo_test.go is an external test package run in place
# Confirms on scratch copies of /repo (never in /repo): the patch applies, the
# repository suite passes with it, the demo fails with it and passes without.
# On success stores patch, demo and meta.json under /verif/seeded/<seed-name>/.
set -u
export GOFLAGS=-mod=mod GOPROXY=off GOSUMDB=off GOTOOLCHAIN=local
M="$1"; NAME="$2"; PROP="$3"; KIND="$4"
V=/verif; SRC="${SEED_SRC:-/repo}"
A=$(mktemp -d /tmp/seedA.XXXXXX); B=$(mktemp -d /tmp/seedB.XXXXXX)
trap 'rm -rf "$A" "$B"' EXIT
rsync -a --exclude .git "$SRC"/ "$A"/; rsync -a --exclude .git "$SRC"/ "$B"/
( cd "$B" && patch -p1 --no-backup-if-mismatch < "$M/patch.diff" ) > "$B/.patch.log" 2>&1 || { cat "$B/.patch.log"; echo "SEED-FAIL patch does not apply"; exit 1; }
( cd "$B" && go build ./... 2>&1 | grep -v carto | head ) 
( cd "$B" && go test -vet=off -count=1 $(go list ./... | grep -v /carto) ) > "$B/.suite.log" 2>&1
if grep -q '^FAIL\|^--- FAIL' "$B/.suite.log"; then grep -v '^ok' "$B/.suite.log" | head -30; echo "SEED-FAIL suite fails with the patch"; exit 1; fi
suite="pass ($(grep -c '^ok' "$B/.suite.log") packages ok)"
rundemo() { # dir
  local D="$1"
  case "$KIND" in
   prog) mkdir -p "$D/zz_demo" && cp "$M"/demo/*.go "$D/zz_demo/" && (cd "$D" && go run ./zz_demo) ;;
   ext) mkdir -p "$D/zz_demo" && cp "$M"/demo_test.go "$D/zz_demo/" && (cd "$D" && go test -vet=off -count=1 ./zz_demo/) ;;
   test:*) IFS=: read -r _ pkg tags <<< "$KIND"; cp "$M/demo_test.go" "$D/$pkg/zz_demo_test.go" && (cd "$D" && go test -vet=off -count=1 ${tags:+-tags $tags} -run 'Demo|demo' "./$pkg/") ;;
  esac
}
rundemo "$A" > "$A/.demo.log" 2>&1; ra=$?
rundemo "$B" > "$B/.demo.log" 2>&1; rb=$?
if [ $ra -ne 0 ]; then tail -20 "$A/.demo.log"; echo "SEED-FAIL demo fails WITHOUT the patch"; exit 1; fi
if [ $rb -eq 0 ]; then tail -20 "$B/.demo.log"; echo "SEED-FAIL demo passes WITH the patch"; exit 1; fi
mkdir -p "$V/seeded/$NAME"
cp "$M/patch.diff" "$V/seeded/$NAME/patch.diff"
[ -d "$M/demo" ] && cp -r "$M/demo" "$V/seeded/$NAME/"
[ -f "$M/demo_test.go" ] && cp "$M/demo_test.go" "$V/seeded/$NAME/demo_test.go.txt"
[ -f "$M/README.md" ] && cp "$M/README.md" "$V/seeded/$NAME/README.md"
python3 - "$V/seeded/$NAME/meta.json" "$PROP" "$KIND" "$suite" <<'PY'
import json,sys
p,prop,kind,suite=sys.argv[1:5]
try: old=json.load(open(p))
except Exception: old={}
old.update({"property":prop,"demo_kind":kind,"confirmed":{"repo_suite_with_patch":suite,"demo_without_patch":"pass","demo_with_patch":"fail"},
 "how":"tools/seed_verify.sh on scratch copies of /repo (rsync, patch -p1, go test / go run)"})
old.setdefault("needs","see README.md")
json.dump(old,open(p,"w"),indent=1)
PY
echo "SEED-OK $NAME: suite $suite; demo without patch pass, with patch fail"
