#!/bin/bash
# Runs the repository's own test suite on a scratch copy of /repo's working
# tree (never in place: go -mod=mod would dirty /repo/go.sum). Usage:
#   repotest.sh [pkg ...]     (default ./...)
# Prints a one-line summary and exits non-zero if any test fails.
export GOFLAGS=-mod=mod GOPROXY=off GOSUMDB=off GOTOOLCHAIN=local
SRC="${VERIF_REPO:-/repo}"
D=$(mktemp -d /tmp/repotest.XXXXXX)
trap 'rm -rf "$D"' EXIT
rsync -a --exclude .git "$SRC"/ "$D"/
cd "$D" || exit 3
[ $# -ge 1 ] || set -- $(go list ./... | grep -v /carto)
go test -vet=off -count=1 -timeout 25m "$@" > "$D/out.txt" 2>&1
rc=$?
grep -v '^ok\|no test files' "$D/out.txt" | head -60
echo "repotest: $(grep -c '^ok' "$D/out.txt") packages ok, exit $rc"
exit $rc
