// Command instr is the typed source instrumentor of engine E3. It loads one
// package of the repository with full type information, rewrites every
// synchronisation construct (sync.*, errgroup, channels, go statements) and —
// with -maps — every range over a map with ordered keys into calls on the shim
// runtime verif/mc/vrt, writes the rewritten files to -out and a
// `go build -overlay` JSON to -overlay. Every rule is local and 1:1 (see
// DESIGN.md §2.2a); constructs it cannot model (select, unbuffered rendez-vous
// is left to the runtime to reject) stop it with an error.
package main

import (
	"bytes"
	"encoding/json"
	"flag"
	"fmt"
	"go/ast"
	"go/format"
	"go/token"
	"go/types"
	"os"
	"path/filepath"
	"strconv"
	"strings"

	"golang.org/x/tools/go/ast/astutil"
	"golang.org/x/tools/go/packages"
)

const (
	vrtPath = "verif/mc/vrt"
	egPath  = "verif/mc/vrt/errgroup"
)

var (
	info    *types.Info
	fset    *token.FileSet
	doMaps  bool
	counter int
	usedVrt bool
	stats   = map[string]int{}
)

func fatal(format string, a ...interface{}) {
	fmt.Fprintf(os.Stderr, "instr: "+format+"\n", a...)
	os.Exit(2)
}

func isChan(e ast.Expr) bool {
	t := info.TypeOf(e)
	if t == nil {
		return false
	}
	_, ok := t.Underlying().(*types.Chan)
	return ok
}

func orderedMapKey(e ast.Expr) bool {
	t := info.TypeOf(e)
	if t == nil {
		return false
	}
	m, ok := t.Underlying().(*types.Map)
	if !ok {
		return false
	}
	b, ok := m.Key().Underlying().(*types.Basic)
	return ok && b.Info()&(types.IsInteger|types.IsFloat|types.IsString) != 0
}

func pure(e ast.Expr) bool {
	switch t := e.(type) {
	case *ast.Ident:
		return true
	case *ast.SelectorExpr:
		return pure(t.X)
	case *ast.ParenExpr:
		return pure(t.X)
	case *ast.IndexExpr:
		return pure(t.X) && pure(t.Index)
	}
	return false
}

func exprString(e ast.Expr) string {
	var b bytes.Buffer
	format.Node(&b, fset, e)
	return b.String()
}

func fresh(base string) *ast.Ident {
	counter++
	return ast.NewIdent(fmt.Sprintf("vrt%s%d", base, counter))
}

func vrtSel(name string) ast.Expr {
	usedVrt = true
	return &ast.SelectorExpr{X: ast.NewIdent("vrt"), Sel: ast.NewIdent(name)}
}

func call(fun ast.Expr, args ...ast.Expr) *ast.CallExpr {
	return &ast.CallExpr{Fun: fun, Args: args}
}

func method(recv ast.Expr, name string, args ...ast.Expr) *ast.CallExpr {
	return call(&ast.SelectorExpr{X: recv, Sel: ast.NewIdent(name)}, args...)
}

// bodyWrites reports whether the body assigns to or deletes from the map
// expression m (compared textually).
func bodyWrites(body *ast.BlockStmt, m string) bool {
	w := false
	ast.Inspect(body, func(n ast.Node) bool {
		switch t := n.(type) {
		case *ast.AssignStmt:
			for _, l := range t.Lhs {
				if ix, ok := l.(*ast.IndexExpr); ok && exprString(ix.X) == m {
					w = true
				}
			}
		case *ast.CallExpr:
			if id, ok := t.Fun.(*ast.Ident); ok && id.Name == "delete" && len(t.Args) > 0 && exprString(t.Args[0]) == m {
				w = true
			}
		}
		return !w
	})
	return w
}

func rewriteFile(f *ast.File) {
	// 1. imports
	for _, im := range f.Imports {
		p, _ := strconv.Unquote(im.Path.Value)
		switch p {
		case "sync":
			if im.Name == nil {
				im.Name = ast.NewIdent("sync")
			}
			im.Path.Value = strconv.Quote(vrtPath)
			stats["import sync"]++
		case "golang.org/x/sync/errgroup":
			if im.Name == nil {
				im.Name = ast.NewIdent("errgroup")
			}
			im.Path.Value = strconv.Quote(egPath)
			stats["import errgroup"]++
		case "sync/atomic":
			fatal("%s: sync/atomic is not modelled", fset.Position(im.Pos()))
		}
	}
	// 2. statements and expressions
	astutil.Apply(f, nil, func(c *astutil.Cursor) bool {
		switch n := c.Node().(type) {
		case *ast.SelectStmt:
			fatal("%s: select is not modelled", fset.Position(n.Pos()))
		case *ast.GoStmt:
			var pre []ast.Stmt
			args := make([]ast.Expr, len(n.Call.Args))
			for i, a := range n.Call.Args {
				tmp := fresh("Arg")
				pre = append(pre, &ast.AssignStmt{Lhs: []ast.Expr{tmp}, Tok: token.DEFINE, Rhs: []ast.Expr{a}})
				args[i] = tmp
			}
			inner := &ast.CallExpr{Fun: n.Call.Fun, Args: args, Ellipsis: n.Call.Ellipsis}
			spawn := &ast.ExprStmt{X: call(vrtSel("Go"), &ast.FuncLit{
				Type: &ast.FuncType{Params: &ast.FieldList{}},
				Body: &ast.BlockStmt{List: []ast.Stmt{&ast.ExprStmt{X: inner}}},
			})}
			if len(pre) == 0 {
				c.Replace(spawn)
			} else {
				c.Replace(&ast.BlockStmt{List: append(pre, spawn)})
			}
			stats["go"]++
		case *ast.SendStmt:
			c.Replace(&ast.ExprStmt{X: method(n.Chan, "Send", n.Value)})
			stats["send"]++
		case *ast.ChanType:
			usedVrt = true
			c.Replace(&ast.StarExpr{X: &ast.IndexExpr{X: vrtSel("Chan"), Index: n.Value}})
			stats["chan type"]++
		case *ast.UnaryExpr:
			if n.Op == token.ARROW {
				// v, ok := <-c is handled at the assignment (post-order: the
				// parent sees this node already replaced), so mark by method name.
				c.Replace(method(n.X, "Recv1"))
				stats["recv"]++
			}
		case *ast.AssignStmt:
			if len(n.Lhs) == 2 && len(n.Rhs) == 1 {
				if ce, ok := n.Rhs[0].(*ast.CallExpr); ok {
					if se, ok := ce.Fun.(*ast.SelectorExpr); ok && se.Sel.Name == "Recv1" && len(ce.Args) == 0 {
						se.Sel = ast.NewIdent("Recv")
					}
				}
			}
		case *ast.ValueSpec:
			if len(n.Names) == 2 && len(n.Values) == 1 {
				if ce, ok := n.Values[0].(*ast.CallExpr); ok {
					if se, ok := ce.Fun.(*ast.SelectorExpr); ok && se.Sel.Name == "Recv1" && len(ce.Args) == 0 {
						se.Sel = ast.NewIdent("Recv")
					}
				}
			}
		case *ast.CallExpr:
			if id, ok := n.Fun.(*ast.Ident); ok {
				switch id.Name {
				case "make":
					// the ChanType argument has already been rewritten to *vrt.Chan[T]
					if len(n.Args) >= 1 {
						if st, ok := n.Args[0].(*ast.StarExpr); ok {
							if ix, ok := st.X.(*ast.IndexExpr); ok && exprString(ix.X) == "vrt.Chan" {
								var size ast.Expr = &ast.BasicLit{Kind: token.INT, Value: "0"}
								if len(n.Args) == 2 {
									size = n.Args[1]
								}
								c.Replace(call(&ast.IndexExpr{X: vrtSel("MakeChan"), Index: ix.Index}, size))
								stats["make chan"]++
							}
						}
					}
				case "close":
					if len(n.Args) == 1 && isChanOrig(n.Args[0]) {
						c.Replace(method(n.Args[0], "Close"))
						stats["close"]++
					}
				case "len", "cap":
					if len(n.Args) == 1 && isChanOrig(n.Args[0]) {
						name := "Len"
						if id.Name == "cap" {
							name = "Cap"
						}
						c.Replace(method(n.Args[0], name))
						stats[id.Name+" chan"]++
					}
				}
			}
		case *ast.RangeStmt:
			if isChanOrig(n.X) {
				ok := fresh("Ok")
				var v ast.Expr = ast.NewIdent("_")
				if n.Key != nil {
					v = n.Key
				}
				tok := token.DEFINE
				var pre []ast.Stmt
				if n.Tok == token.ASSIGN {
					tok = token.ASSIGN
					pre = append(pre, &ast.DeclStmt{Decl: &ast.GenDecl{Tok: token.VAR, Specs: []ast.Spec{&ast.ValueSpec{Names: []*ast.Ident{ok}, Type: ast.NewIdent("bool")}}}})
				}
				recv := &ast.AssignStmt{Lhs: []ast.Expr{v, ok}, Tok: tok, Rhs: []ast.Expr{method(n.X, "Recv")}}
				brk := &ast.IfStmt{Cond: &ast.UnaryExpr{Op: token.NOT, X: ok}, Body: &ast.BlockStmt{List: []ast.Stmt{&ast.BranchStmt{Tok: token.BREAK}}}}
				body := append(append(pre, recv, brk), n.Body.List...)
				c.Replace(&ast.ForStmt{Body: &ast.BlockStmt{List: body}})
				stats["range chan"]++
			} else if doMaps && orderedMapKey(n.X) && n.Tok != token.ASSIGN && pure(n.X) {
				// for k, v := range m {B}  ==>
				//   for _, k := range vrt.MapKeys(m) { v, ok := m[k]; if !ok { continue }; B }
				// The keys are a snapshot taken when the loop starts, in the order the
				// explorer chose; a key that the body (or anything it calls) has deleted
				// by the time its turn comes is skipped, and keys inserted during the loop
				// are not visited - both are behaviours Go allows for such a loop.
				if n.Key == nil && n.Value == nil {
					return true
				}
				if n.Value != nil {
					if _, ok := n.Value.(*ast.Ident); !ok {
						return true // unusual value expression: leave alone
					}
				}
				var key *ast.Ident
				if id, ok := n.Key.(*ast.Ident); ok && id.Name != "_" {
					key = id
				} else {
					key = fresh("Key")
				}
				var val ast.Expr = ast.NewIdent("_")
				if id, ok := n.Value.(*ast.Ident); ok && id.Name != "_" {
					val = id
				}
				present := fresh("Ok")
				pre := []ast.Stmt{
					&ast.AssignStmt{Lhs: []ast.Expr{val, present}, Tok: token.DEFINE, Rhs: []ast.Expr{&ast.IndexExpr{X: n.X, Index: key}}},
					&ast.IfStmt{Cond: &ast.UnaryExpr{Op: token.NOT, X: present}, Body: &ast.BlockStmt{List: []ast.Stmt{&ast.BranchStmt{Tok: token.CONTINUE}}}},
				}
				if bodyWrites(n.Body, exprString(n.X)) {
					stats["range map (body writes the map)"]++
				}
				n.Key = ast.NewIdent("_")
				n.Value = key
				n.Tok = token.DEFINE
				n.X = call(vrtSel("MapKeys"), n.X)
				n.Body.List = append(pre, n.Body.List...)
				stats["range map"]++
			}
		}
		return true
	})
	if usedVrt {
		astutil.AddNamedImport(fset, f, "vrt", vrtPath)
	}
}

// origChan remembers which original expressions had channel type (the typed
// info refers to original nodes; children are rewritten before parents, so a
// rewritten child no longer has type info).
var origChan = map[ast.Expr]bool{}

func isChanOrig(e ast.Expr) bool { return origChan[e] || isChan(e) }

func main() {
	pkgPath := flag.String("pkg", "", "import path of the package to instrument")
	out := flag.String("out", "", "directory for rewritten files")
	overlay := flag.String("overlay", "", "overlay JSON to write")
	extra := flag.String("extra", "", "comma separated extra overlay entries target=source")
	flag.BoolVar(&doMaps, "maps", false, "rewrite ranges over maps into explorer-controlled orders")
	flag.Parse()
	cfg := &packages.Config{Mode: packages.NeedName | packages.NeedFiles | packages.NeedCompiledGoFiles | packages.NeedSyntax | packages.NeedTypes | packages.NeedTypesInfo | packages.NeedImports | packages.NeedDeps}
	pkgs, err := packages.Load(cfg, *pkgPath)
	if err != nil || len(pkgs) != 1 {
		fatal("load %s: %v", *pkgPath, err)
	}
	p := pkgs[0]
	if len(p.Errors) > 0 {
		fatal("package %s has errors: %v", *pkgPath, p.Errors)
	}
	info, fset = p.TypesInfo, p.Fset
	os.MkdirAll(*out, 0o755)
	repl := map[string]string{}
	for i, f := range p.Syntax {
		name := p.CompiledGoFiles[i]
		// remember channel-typed expressions before rewriting
		ast.Inspect(f, func(n ast.Node) bool {
			if e, ok := n.(ast.Expr); ok && isChan(e) {
				origChan[e] = true
			}
			return true
		})
		usedVrt = false
		before := len(stats)
		_ = before
		rewriteFile(f)
		var b bytes.Buffer
		b.WriteString("//go:build go1.18\n\n")
		if err := format.Node(&b, fset, f); err != nil {
			fatal("print %s: %v", name, err)
		}
		dst := filepath.Join(*out, strings.ReplaceAll(strings.TrimPrefix(*pkgPath, "github.com/ctessum/geom/"), "/", "_")+"_"+filepath.Base(name))
		if err := os.WriteFile(dst, b.Bytes(), 0o644); err != nil {
			fatal("%v", err)
		}
		abs, _ := filepath.Abs(dst)
		repl[name] = abs
	}
	if *extra != "" {
		for _, kv := range strings.Split(*extra, ",") {
			p := strings.SplitN(kv, "=", 2)
			repl[p[0]] = p[1]
		}
	}
	b, _ := json.MarshalIndent(map[string]interface{}{"Replace": repl}, "", " ")
	if err := os.WriteFile(*overlay, b, 0o644); err != nil {
		fatal("%v", err)
	}
	fmt.Printf("instr: %s: %d files rewritten, rules applied: %v\n", *pkgPath, len(repl), stats)
}
