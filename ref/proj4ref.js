// Reference driver: evaluates requests with the vendored proj4js 2.3.12.
// stdin: JSON {requests: [{src, dst, pts: [[x,y],...]}]} ; stdout: JSON {results: [[[x,y]|null,...],...]}
// usage: node proj4ref.js <path-to-proj4js-lib> [tables]
var path = require('path');
var lib = process.argv[2];
module.paths.unshift(path.join(__dirname, 'node_modules'));
require('module').globalPaths.unshift(path.join(__dirname, 'node_modules'));
process.env.NODE_PATH = path.join(__dirname, 'node_modules');
require('module').Module._initPaths();
var proj4 = require(path.join(lib, 'index.js'));
if (process.argv[3] === 'tables') {
  var out = {
    Ellipsoid: require(path.join(lib, 'constants/Ellipsoid.js')),
    Datum: require(path.join(lib, 'constants/Datum.js')),
    PrimeMeridian: require(path.join(lib, 'constants/PrimeMeridian.js')),
    units: require(path.join(lib, 'constants/units.js'))
  };
  process.stdout.write(JSON.stringify(out));
  process.exit(0);
}
var input = '';
process.stdin.on('data', function (d) { input += d; });
process.stdin.on('end', function () {
  var req = JSON.parse(input).requests;
  var results = req.map(function (r) {
    var src, dst;
    try { src = new proj4.Proj(r.src); dst = new proj4.Proj(r.dst); } catch (e) { return {error: String(e)}; }
    if (r.fields) {
      var f = function (p) { return {a: p.a, b: p.b, rf: p.rf, es: p.es, datum_params: p.datum_params ? Array.prototype.map.call(p.datum_params, function (v) { return parseFloat(v); }) : null, from_greenwich: p.from_greenwich === undefined ? null : p.from_greenwich, to_meter: p.to_meter === undefined ? null : p.to_meter}; };
      return {points: [], fields: [f(src), f(dst)]};
    }
    return {points: r.pts.map(function (p) {
      try {
        var q = proj4.transform(src, dst, {x: p[0], y: p[1]});
        if (!isFinite(q.x) || !isFinite(q.y)) { return null; }
        return [q.x, q.y];
      } catch (e) { return null; }
    })};
  });
  process.stdout.write(JSON.stringify({results: results}));
});
